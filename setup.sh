#!/bin/sh
# Offline setup: nothing to build (pure Python + TLC). Verifies that the tools the checks need are usable.
set -e
cd "$(dirname "$0")"
java -cp /opt/veriftools/tla/tla2tools.jar:/opt/veriftools/tla/CommunityModules-deps.jar tlc2.TLC -h 2>&1 | grep -q "model checking" || { echo "tlc unusable"; exit 1; }
/venv/bin/python -c "import duckdb, sqlite3, sys; sys.path.insert(0,'/repo'); import sqlglot; print('python ok', duckdb.__version__, sqlite3.sqlite_version, sqlglot.__file__)"
mkdir -p evidence .work replay
echo setup ok
