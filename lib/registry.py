"""What is claimed. MANIFEST.json is generated from this (python3 lib/manifest_gen.py)."""
HOOK_COMMITS = ["7623478", "5874428", "c122c10"]
NOTES = (
    "Model-based verification with explicit TLA+ specifications (spec/*.tla), TLC for the models and as the "
    "evaluator of recorded real behaviour, Python drivers for replaying TLC behaviours into /repo's working tree. "
    "Verdicts: VIOLATION (property clause false on real behaviour), SPEC-DRIFT (model differs, property holds; exit 0), "
    "exit 2 for machinery failures. Known findings: KNOWN_FINDINGS.txt."
)
ENGINES = [
    {"name": "Lineage", "path": "spec/Lineage.tla", "serves_properties": ["C17"],
     "kind_free_text": "builder of view DAGs (select/star/column-list alias/scalar subquery/positional set operation) with the denotational meaning of 'flows into' (LineageSem.Out) checked against dependency-graph reachability; LineageTrace.tla is the acceptor for recorded lineage() runs"},
    {"name": "Scope", "path": "spec/Scope.tla", "serves_properties": ["C10"],
     "kind_free_text": "identifier normalisation over case classes x strategies (Idempotent, Untouched as ASSUMEs checked by TLC), the scoping rules, and the generator of query skeletons; QualifyTrace.tla is the acceptor for recorded qualify() runs"},
    {"name": "ErrLevel", "path": "spec/ErrLevel.tla", "serves_properties": ["C14"],
     "kind_free_text": "four lock-step copies of the parser's error-reporting machine (one per ErrorLevel) over a common event stream; Mutate.tla generates inputs; ErrTrace.tla relates the four recorded runs"},
    {"name": "Cursor", "path": "spec/Cursor.tla", "serves_properties": ["C05"],
     "kind_free_text": "parser cursor with speculation and loop frames (progress argument for termination); CursorTrace.tla validates recorded cursor events; step counters from guarded hooks decide non-termination"},
    {"name": "Quote", "path": "spec/Quote.tla", "serves_properties": ["C04"],
     "kind_free_text": "generator Escape vs tokenizer Lex for delimited literals, parameterised by each dialect's escape configuration exported from the working tree; QuoteTrace.tla is the acceptor for generate-then-tokenize runs"},
    {"name": "Diff", "path": "spec/Diff.tla", "serves_properties": ["C20"],
     "kind_free_text": "ChangeDistiller bookkeeping (unmatched pools, matching set, edit script): Bijection, Partition, Accounting; DiffTrace.tla is the acceptor for recorded diffs"},
    {"name": "SqlSem", "path": "spec/SqlSem.tla", "serves_properties": ["C06"],
     "kind_free_text": "three-valued scalar semantics (Kleene connectives, NULL-propagating comparisons/arithmetic, BETWEEN, IN, COALESCE, CASE), CNF/DNF predicates; ExprGen.tla generates the expressions, RewriteTrace.tla is the acceptor"},
    {"name": "RelSem", "path": "spec/RelSem.tla", "serves_properties": ["C11", "C03", "C02"],
     "kind_free_text": "reference relational semantics (bags, outer joins, grouping and NULL-aware aggregates, DISTINCT, ORDER BY/LIMIT, set operations, correlated subqueries); QueryGen.tla generates query skeletons and databases, RelTrace.tla is the acceptor for recorded executions"},
    {"name": "Serde", "path": "spec/Serde.tla", "serves_properties": ["C12"],
     "kind_free_text": "TLA+ model of serde.dump/load (pre-order flattening with parent index, arg name, array flag; rebuild through append/set) over the node store of Ast.tla, invariant RoundTrip on every store reachable by mutation histories; SerdeTrace.tla is the acceptor for recorded round trips of real trees"},
    {"name": "Scanner", "path": "spec/Scanner.tla", "serves_properties": ["C13"],
     "kind_free_text": "TLA+ model of the tokenizer's hand-maintained position counters (one action per way the cursor moves: _advance(i), blank skip, digit batch, alnum run, keyword fold, string fast path, escape pair, retreat) with reference RefLine/RefCol; also the generator of abstract texts; ScanTrace.tla is the acceptor for recorded tokenizer/parser runs"},
    {"name": "Schema", "path": "spec/Schema.tla", "serves_properties": ["C18"],
     "kind_free_text": "TLA+ model of MappingSchema (mapping, find cache, normalised-name cache, identifier normalisation strategies) with the cache-free reference Fresh*; TLC exhaustive (Coherent, AnswersOK) + transition emission replayed on the real class"},
    {"name": "Ast", "path": "spec/Ast.tla", "serves_properties": ["C08", "C09", "C12"],
     "kind_free_text": "TLA+ model of the mutable Expression tree (node store, every branch of set/append/replace/pop, hash cache, deepcopy); TLC exhaustive + transition emission; AstTrace.tla evaluates the invariants on recorded real trees"},
]
CHECKS = {
    "C17": {
        "engine": "Lineage",
        "design_ref": "DESIGN.md section 5, C17",
        "technique": "TLA+ model of view DAGs and of column flow (denotational Out = graph reachability, checked by TLC); TLC-derived DAGs rendered in up to 6 presentations x 4 alias schemes; leaves reported by sqlglot.lineage validated by the TLA+ acceptor LineageTrace",
        "text": "All DAGs of one definition (2 FROM entries, 2 items, 2 reads + scalar subquery, stars, unions; a 1/12 hash slice per quick run, all in thorough), all two-definition chains of the small bound (thorough) and 2800 (quick) / 24000 (thorough) simulated derivations of up to 4 definitions; each written as derived tables, hoisted CTEs, nested WITH, CTE with reference-level column list, sources= and sources= under a qualified name, with 4 alias schemes, queried per column, for all columns at once (shared cache) and untrimmed. Clauses: Raised, Names, Unresolved, Missing, Extra per output column.",
        "note": "Trusted: the renderer in props/c17.py (it never computes leaves; the acceptor does). Correlated scalar subqueries, pivots, UDTFs and join/WHERE conditions are outside the term language.",
    },
    "C10": {
        "engine": "Scope",
        "design_ref": "DESIGN.md section 5, C10",
        "technique": "TLA+ identifier-normalisation model checked by TLC; TLC-enumerated query skeletons rendered per dialect; qualify() outputs projected by an independent scope traversal and validated by the TLA+ acceptor QualifyTrace",
        "text": "The full product of skeleton features (11 shapes incl. three that must be rejected, qualification level, 7 star variants, 6 ORDER BY variants, GROUP BY variants, USING, 4 identifier-case variants, schema depth 1-3: ~10^5 skeletons) x 12 dialects covering all normalisation strategies; a sixth per quick run (~9*10^3 qualify runs), all in thorough. Clauses: must-reject queries raise OptimizeError; every table aliased; every column's qualifier visible at its position or an exact output-name reference in ORDER BY; star expansions equal the qualified hand-expanded query; output names kept; qualify twice = once; normalize_identifiers idempotent and identity on case-sensitive identifiers (13 spellings x quoted x 34 dialects).",
        "note": "Trusted: the independent scope traversal in props/c10.analyse and the skeleton renderer. Stars under USING and EXCEPT/REPLACE over duplicate column names are excluded (not well defined).",
    },
    "C14": {
        "engine": "ErrLevel",
        "design_ref": "DESIGN.md section 5, C14",
        "technique": "TLA+ product model of the four error levels (ErrLevel.tla) checked by TLC; for TLC-generated mutated inputs the real parser/generator is run once per level with guarded hooks, and the TLA+ acceptor ErrTrace relates the four recorded runs and checks the level discipline of their event logs",
        "text": "Model: all event streams of length <= 7-8 with nested speculation: IGNORE/WARN never raise and produce the same, RAISE raises iff WARN logged with exactly the collected errors, IMMEDIATE raises the first, levels are restored after _try_parse; two negative controls. Conformance: ~3*10^3 parse quadruples (valid statements, token mutations, 3-statement scripts, a complete soft-keyword sweep, a sweep over dialect-specific statements; max_errors 1..3) and ~2*10^3 generation quadruples (incl. sequences on reused Generator objects, max_unsupported 1..3) per quick run.",
        "note": "Trusted: the reading of WARN's log records from the 'sqlglot' logger, error identity (description, line, col). Cases where any run leaks an internal exception are C05's subject and skipped here.",
    },
    "C05": {
        "engine": "Cursor",
        "design_ref": "DESIGN.md section 5, C05",
        "technique": "TLA+ cursor/frames model (progress argument, 2 negative controls) checked by TLC; TLC-generated mutations executed under deterministic step budgets from the guarded hooks; recorded cursor events validated by the TLA+ acceptor CursorTrace; exception class and work growth judged per input",
        "text": "Every input of a fixed space (valid statements, ~9*10^3 TLC-generated single/double mutations and scripts, soft-keyword sweep, truncated prefixes, a complete insert/delete/truncate sweep over dialect-specific statements, 18 pumped families at k = 4..32) x dialects x 4 error levels x target dialects is tokenized, parsed and generated under step budgets (tokenizer, parser incl. node constructions, generator): the outcome must be a value or a sqlglot error, budgets must hold, work along pumped families must not grow faster than cubic, and the outer parser's cursor events must stay in range and retreat only to visited positions.",
        "note": "The unchanged tree leaks ~45 internal exception sites on malformed input (listed findings keyed by phase, exception class and innermost sqlglot frame) - the space is fixed and triaged, the seed picks a half. Two non-termination defects found by the budgets were repaired (NOT constraint double retreat, COPY parameter loop).",
    },
    "C04": {
        "engine": "Quote",
        "design_ref": "DESIGN.md section 5, C04",
        "technique": "TLA+ model Escape/Lex (Quote.tla) instantiated with every distinct dialect configuration exported from the working tree and checked by TLC; builder-API values generated and tokenized by the real code, validated by the TLA+ acceptor QuoteTrace",
        "text": "RoundTrip is model-checked for all values of length <= 3-4 over 6 character classes per distinct escape configuration (5 today). Conformance: all values of length <= 2 (all dialects) / <= 3 (rotating quarter, all in thorough) over the dialect's delimiters, backslash, LF, CR, NUL, comment markers, $, brackets, backtick, %, tab, a non-ASCII letter, plus injection-shaped values and the line-break sentinel, as string literal, exp.convert value, quoted identifier, comment and literal-after-raw-string, with pretty/identify on and off: ~1.2*10^5 generate-then-tokenize cases per quick run judged by TLC.",
        "note": "Three listed findings (Athena backslash strings, ClickHouse identifiers with backslash, the sentinel text under pretty). Byte/national literals are only exercised as the 'raw string first' context.",
    },
    "C20": {
        "engine": "Diff",
        "design_ref": "DESIGN.md section 5, C20",
        "technique": "TLA+ bookkeeping model of ChangeDistiller (Diff.tla, 2 negative controls) checked by TLC; recorded real diffs of edited/independent/equal tree pairs validated by the TLA+ acceptor DiffTrace (accounting, same-type pairing, empty-delta-iff-equal decided on structural projections, frame of both inputs)",
        "text": "A fixed space of 9000 (source, edit, options) combinations over corpus, probe and similar-column statements (16 edit kinds incl. identifier/alias-column/CTE renames, insert/delete/move, wrap, two edits, independent trees, copies) x delta_only x matchings {none, root pair, corresponding leaf pair, cross leaf pair}; a third per quick run.",
        "note": "One listed finding (a pre-matched leaf pair is not counted among its parents' common leaves). Tree equality is decided by TLC on projections that apply the normalisations of Expression.__hash__.",
    },
    "C06": {
        "engine": "SqlSem",
        "design_ref": "DESIGN.md section 5, C06",
        "technique": "TLA+ three-valued semantics (SqlSem.tla); TLC enumerates expressions (ExprGen.tla); real simplify/normalize runs are recorded with the guarded rule observer and every (before, after) pair is validated by TLC under every assignment (RewriteTrace.tla)",
        "text": "TLC enumerates all depth-1 boolean expressions, every atom-vs-depth-2 connector tree and seeded samples of depth 2-3 expressions over integer/boolean/NOT NULL columns; each is rendered with minimal or full parentheses, typed or untyped, under the dialect flags, and run through simplify (with and without coalesce_simplification) and normalize (CNF/DNF, default and tightest distance budgets). TLC evaluates input and output, the re-parsed output text, and every changed rule application reported by the hook under every assignment over NULL and all order-relevant integers, and checks the normal-form clause. ~4-6*10^4 obligations per quick run, 4*10^5 thorough.",
        "note": "Trusted: term<->SQL<->tree conversions in props/c06.py. 'Unchanged input' is read modulo normalize's documented BETWEEN expansion. The unchanged tree folds contradictory ranges to FALSE for NULL operands (listed findings); the explored space is fixed and triaged, VERIF_SEED selects one of five generator seeds.",
    },
    "C11": {
        "engine": "RelSem",
        "design_ref": "DESIGN.md section 5, C11",
        "technique": "TLA+ reference relational semantics (RelSem.tla) calibrated against DuckDB and SQLite; TLC-generated queries and databases; executor results validated by the TLA+ acceptor RelTrace against the engines",
        "text": "Four completely enumerated skeleton sub-spaces (joins of all kinds x predicates; subqueries; join-elimination shapes; set operations) plus a TLC-sampled product of all clause features, over fixed and TLC-sampled small databases with NULLs, duplicates and empty tables: each (query, db) runs on DuckDB, SQLite and sqlglot's executor; TLC compares bags/sequences and names, and evaluates RelSem.Sem on the same term (0 disagreements with the engines on ~1.5*10^4 cases per quick run).",
        "note": "Engine oracle: a case is conclusive only when DuckDB and SQLite agree. Integer columns only. The unchanged executor has listed findings (aggregates over joins with same-named columns / unmatched rows, NULLS FIRST under DISTINCT+LIMIT); keys are minimal shapes found by delta-minimisation; fixed space, the seed picks a slice.",
    },
    "C03": {
        "engine": "RelSem",
        "design_ref": "DESIGN.md section 5, C03",
        "technique": "TLC-generated queries/databases; the rule pipeline is stepped on the real optimizer, every distinct intermediate text is executed on DuckDB and the TLA+ acceptor RelTrace compares each result with the original's; RelSem.Sem calibrates generator and renderer",
        "text": "For every generated query (same spaces as C11) the original text, the text after each prefix of RULES and after qualify + each single rule are executed on DuckDB over 5-8 databases; TLC compares rows (bag; sequence under total ORDER BY) and column names and attributes a difference to the first rule whose step changes the result; the key of a violation is the rule plus the delta-minimised query shape.",
        "note": "Engine oracle (DuckDB, one thread). One listed finding (eliminate_joins treats LIMIT 1 as exactly one row; pinned by a repository fixture). Two optimizer defects found here were repaired (FULL JOIN pushdown, grouped aggregate treated as single row).",
    },
    "C02": {
        "engine": "RelSem",
        "design_ref": "DESIGN.md section 5, C02",
        "technique": "TLC-generated queries of the transpilation fragment and databases; source text on the source engine vs sqlglot.transpile output on the target engine for 4 dialect pairs; results validated by the TLA+ acceptor RelTrace",
        "text": "Every scalar expression of the fragment (division variants, %, ||, IFNULL/COALESCE/NULLIF/CASE, parenthesisation, NOT IN, BETWEEN, casts) x ordering variants, and ordering (asc/desc x NULLS none/first/last) x LIMIT/OFFSET x join x where x DISTINCT x QUALIFY/DISTINCT ON/SEMI/ANTI (DuckDB source), for SQLite->DuckDB, DuckDB->SQLite and both identity directions, on real sqlite3 and duckdb; TLC compares row sequences/bags and names.",
        "note": "Engine oracle; numeric values compared by value. strftime-style formats are not generated (no timestamp columns) - that clause of the property is not covered. Listed findings: untyped integer division SQLite->DuckDB, SQLite's implicit text-to-number coercion.",
    },
    "C09": {
        "engine": "Ast",
        "design_ref": "DESIGN.md section 5, C09",
        "technique": "TLA+ call-frame model over the Ast node store (Frame.tla: FrameOK action property, Disjoint, in-place negative control) checked by TLC; TLC-generated API histories executed on real trees, argument snapshots before/after each call validated by a TLA+ acceptor",
        "text": "Model level: inside a copying frame no node of the argument changes and the copy is disjoint, for all frames over all stores within the bound; copy=False breaks it. Conformance: all length-3 histories over 14 documented-to-copy APIs (sql into rotating dialects, pretty/identify, transform, every builder applicable to the tree, optimize, qualify/annotate/normalize on a copy, expand, replace_tables, replace_placeholders, four diff variants, lineage, edit-a-copy) are run on corpus and dialect-probe trees; for every call TLC compares the full argument snapshot (object identities, args, back pointers, types, comments, meta, identities of comment lists/meta dicts) before and after, the text, and that returned trees share no object with the argument.",
        "note": "Trusted: the snapshot function. Cached hashes are excluded from the frame (C08 covers them). diff/lineage results legitimately reference input nodes, so the sharing clause applies to tree-returning APIs only.",
    },
    "C12": {
        "engine": "Serde",
        "design_ref": "DESIGN.md section 5, C12",
        "technique": "TLA+ model of dump/load checked by TLC on every tree Ast.tla can reach (RoundTrip, 3 negative controls); model trees and corpus trees are round-tripped by the real code 4 ways (load(dump), via JSON text, pickle, copy) and each pair is validated by the TLA+ acceptor SerdeTrace",
        "text": "Model level: for every store reachable within 3-4 mutations, load(dump(n)) has exactly n's shape. Conformance: ~10^5 model trees per quick run (replayed on real objects; the real dump relation is also compared with the model's) and ~1000 corpus/probe trees x dialects x {plain, annotated, qualified+annotated, with raw comments and contradicting meta} are sent through the four ways back; TLC compares original and result node by node (class, exact scalar values with their Python type, argument shape, exact type digest, comments, meta) and checks ==, same SQL in several dialects, JSON-serialisability of the dump and (for copy) node disjointness.",
        "note": "Trusted: the projection props/c12.project_full. Absent vs empty-list arguments and None vs empty comments/meta are identified (dump drops them). SQL equality is sampled over 3-5 dialects per tree. One listed finding (DataType object stored in meta by annotate_types).",
    },
    "C13": {
        "engine": "Scanner",
        "design_ref": "DESIGN.md section 5, C13",
        "technique": "TLA+ model of the scanner's position bookkeeping checked exhaustively by TLC (PosOK); TLC-enumerated texts rendered per dialect, real tokenizer/parser runs recorded and validated by the TLA+ acceptor ScanTrace (code->spec)",
        "text": "PosOK (counters = reference line/column) is model-checked over every scanning behaviour on every text of length <= 4-5 over 9 character classes, with four negative-control variants. For conformance, every abstract text up to length 3 (x34 dialects) and a slice of length 4 over 14 classes, in 8 contexts (bare, SELECT, inside a string, folded into GROUP BY, command text, multi-statement script, comment, number suffix), is tokenized and parsed by the real code; TLC recomputes from the code points: token order/disjointness/range, gap content, line/col vs offset, span vs lexeme, ParseError line/col/highlight/context, TokenError start/end, and the positions copied onto Identifier nodes.",
        "note": "Trusted: the renderer and the classification of token kinds for the lexeme clause (raw / whitespace-folded / delimited / command text / 0x-prefixed). Positions follow the code's own convention (CR LF counts once; the LF shares the CR's column). Two deliberate-normalisation findings are listed in KNOWN_FINDINGS.txt.",
    },
    "C18": {
        "engine": "Schema",
        "design_ref": "DESIGN.md section 5, C18",
        "technique": "TLA+ model (Schema.tla) checked exhaustively by TLC (cache coherence invariant + answers action property); every model transition replayed on a real MappingSchema per dialect and judged against a freshly constructed schema",
        "text": "All histories of <= 3-4 public calls (constructor, add_table, column_names, has_column, get_column_type; partially qualified, quoted/unquoted, string/Identifier arguments) over a small universe of catalogs/dbs/tables/columns are enumerated by TLC for each identifier-normalisation strategy and nesting depth; ~10^6 transitions per quick run are executed on the real class and each lookup is compared with MappingSchema(final mapping) - the property's own oracle - and with the model's answer (SPEC-DRIFT). Histories a correct schema cannot distinguish but a stale cache could are kept apart by the 'touched' view abstraction.",
        "note": "Trusted: the renderer of abstract names into dialect-quoted identifiers; fresh oracle = MappingSchema(deepcopy(mapping), normalize=False) with .normalize restored. match_depth=False and column-less tables are outside the modelled contract.",
    },
    "C08": {
        "engine": "Ast",
        "design_ref": "DESIGN.md section 5, C08",
        "technique": "TLA+ model (Ast.tla) checked exhaustively by TLC; every model transition replayed on real Expression objects (spec->code); trees from parse/optimizer/builders/transform validated by TLC against the same invariants (code->spec)",
        "text": "Bounded-exhaustive model checking of the tree-mutation protocol (all histories of <= 4-5 public operations on <= 6 nodes, incl. hash-cache fills and deepcopy) with LinkOK/NoSharing/HashOK/HashClosed/EqCorrect as invariants, bound to the implementation in both directions: each of the ~10^5 TLC transitions is executed on real objects and the projected real state compared with the model's, and thousands of trees produced by the real parser, optimizer rules, builders and transform (with hash()/== interleaved) are sent back to TLC for invariant evaluation. Right level: the property is a protocol invariant over all operation sequences, which is exactly what an explicit state model enumerates.",
        "note": "Trusted: the projection lib/astproj.py and the constructor-only clone builder used as 'hash from scratch'; environment assumption that values handed to mutators are detached (guard Fresh). Beyond the bound the model is only sampled via producers.",
    },
}
NOT_APPLICABLE = {}
