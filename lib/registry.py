"""What is claimed. MANIFEST.json is generated from this (python3 lib/manifest_gen.py)."""
HOOK_COMMITS = ["7623478"]
NOTES = (
    "Model-based verification with explicit TLA+ specifications (spec/*.tla), TLC for the models and as the "
    "evaluator of recorded real behaviour, Python drivers for replaying TLC behaviours into /repo's working tree. "
    "Verdicts: VIOLATION (property clause false on real behaviour), SPEC-DRIFT (model differs, property holds; exit 0), "
    "exit 2 for machinery failures. Known findings: KNOWN_FINDINGS.txt."
)
ENGINES = []
CHECKS = {}
NOT_APPLICABLE = {}
