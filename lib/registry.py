"""What is claimed. MANIFEST.json is generated from this (python3 lib/manifest_gen.py)."""
HOOK_COMMITS = ["7623478"]
NOTES = (
    "Model-based verification with explicit TLA+ specifications (spec/*.tla), TLC for the models and as the "
    "evaluator of recorded real behaviour, Python drivers for replaying TLC behaviours into /repo's working tree. "
    "Verdicts: VIOLATION (property clause false on real behaviour), SPEC-DRIFT (model differs, property holds; exit 0), "
    "exit 2 for machinery failures. Known findings: KNOWN_FINDINGS.txt."
)
ENGINES = [
    {"name": "Serde", "path": "spec/Serde.tla", "serves_properties": ["C12"],
     "kind_free_text": "TLA+ model of serde.dump/load (pre-order flattening with parent index, arg name, array flag; rebuild through append/set) over the node store of Ast.tla, invariant RoundTrip on every store reachable by mutation histories; SerdeTrace.tla is the acceptor for recorded round trips of real trees"},
    {"name": "Scanner", "path": "spec/Scanner.tla", "serves_properties": ["C13"],
     "kind_free_text": "TLA+ model of the tokenizer's hand-maintained position counters (one action per way the cursor moves: _advance(i), blank skip, digit batch, alnum run, keyword fold, string fast path, escape pair, retreat) with reference RefLine/RefCol; also the generator of abstract texts; ScanTrace.tla is the acceptor for recorded tokenizer/parser runs"},
    {"name": "Schema", "path": "spec/Schema.tla", "serves_properties": ["C18"],
     "kind_free_text": "TLA+ model of MappingSchema (mapping, find cache, normalised-name cache, identifier normalisation strategies) with the cache-free reference Fresh*; TLC exhaustive (Coherent, AnswersOK) + transition emission replayed on the real class"},
    {"name": "Ast", "path": "spec/Ast.tla", "serves_properties": ["C08", "C09", "C12"],
     "kind_free_text": "TLA+ model of the mutable Expression tree (node store, every branch of set/append/replace/pop, hash cache, deepcopy); TLC exhaustive + transition emission; AstTrace.tla evaluates the invariants on recorded real trees"},
]
CHECKS = {
    "C09": {
        "engine": "Ast",
        "design_ref": "DESIGN.md section 5, C09",
        "technique": "TLA+ call-frame model over the Ast node store (Frame.tla: FrameOK action property, Disjoint, in-place negative control) checked by TLC; TLC-generated API histories executed on real trees, argument snapshots before/after each call validated by a TLA+ acceptor",
        "text": "Model level: inside a copying frame no node of the argument changes and the copy is disjoint, for all frames over all stores within the bound; copy=False breaks it. Conformance: all length-3 histories over 14 documented-to-copy APIs (sql into rotating dialects, pretty/identify, transform, every builder applicable to the tree, optimize, qualify/annotate/normalize on a copy, expand, replace_tables, replace_placeholders, four diff variants, lineage, edit-a-copy) are run on corpus and dialect-probe trees; for every call TLC compares the full argument snapshot (object identities, args, back pointers, types, comments, meta, identities of comment lists/meta dicts) before and after, the text, and that returned trees share no object with the argument.",
        "note": "Trusted: the snapshot function. Cached hashes are excluded from the frame (C08 covers them). diff/lineage results legitimately reference input nodes, so the sharing clause applies to tree-returning APIs only.",
    },
    "C12": {
        "engine": "Serde",
        "design_ref": "DESIGN.md section 5, C12",
        "technique": "TLA+ model of dump/load checked by TLC on every tree Ast.tla can reach (RoundTrip, 3 negative controls); model trees and corpus trees are round-tripped by the real code 4 ways (load(dump), via JSON text, pickle, copy) and each pair is validated by the TLA+ acceptor SerdeTrace",
        "text": "Model level: for every store reachable within 3-4 mutations, load(dump(n)) has exactly n's shape. Conformance: ~10^5 model trees per quick run (replayed on real objects; the real dump relation is also compared with the model's) and ~1000 corpus/probe trees x dialects x {plain, annotated, qualified+annotated, with raw comments and contradicting meta} are sent through the four ways back; TLC compares original and result node by node (class, exact scalar values with their Python type, argument shape, exact type digest, comments, meta) and checks ==, same SQL in several dialects, JSON-serialisability of the dump and (for copy) node disjointness.",
        "note": "Trusted: the projection props/c12.project_full. Absent vs empty-list arguments and None vs empty comments/meta are identified (dump drops them). SQL equality is sampled over 3-5 dialects per tree. One listed finding (DataType object stored in meta by annotate_types).",
    },
    "C13": {
        "engine": "Scanner",
        "design_ref": "DESIGN.md section 5, C13",
        "technique": "TLA+ model of the scanner's position bookkeeping checked exhaustively by TLC (PosOK); TLC-enumerated texts rendered per dialect, real tokenizer/parser runs recorded and validated by the TLA+ acceptor ScanTrace (code->spec)",
        "text": "PosOK (counters = reference line/column) is model-checked over every scanning behaviour on every text of length <= 4-5 over 9 character classes, with four negative-control variants. For conformance, every abstract text up to length 3 (x34 dialects) and a slice of length 4 over 14 classes, in 8 contexts (bare, SELECT, inside a string, folded into GROUP BY, command text, multi-statement script, comment, number suffix), is tokenized and parsed by the real code; TLC recomputes from the code points: token order/disjointness/range, gap content, line/col vs offset, span vs lexeme, ParseError line/col/highlight/context, TokenError start/end, and the positions copied onto Identifier nodes.",
        "note": "Trusted: the renderer and the classification of token kinds for the lexeme clause (raw / whitespace-folded / delimited / command text / 0x-prefixed). Positions follow the code's own convention (CR LF counts once; the LF shares the CR's column). Two deliberate-normalisation findings are listed in KNOWN_FINDINGS.txt.",
    },
    "C18": {
        "engine": "Schema",
        "design_ref": "DESIGN.md section 5, C18",
        "technique": "TLA+ model (Schema.tla) checked exhaustively by TLC (cache coherence invariant + answers action property); every model transition replayed on a real MappingSchema per dialect and judged against a freshly constructed schema",
        "text": "All histories of <= 3-4 public calls (constructor, add_table, column_names, has_column, get_column_type; partially qualified, quoted/unquoted, string/Identifier arguments) over a small universe of catalogs/dbs/tables/columns are enumerated by TLC for each identifier-normalisation strategy and nesting depth; ~10^6 transitions per quick run are executed on the real class and each lookup is compared with MappingSchema(final mapping) - the property's own oracle - and with the model's answer (SPEC-DRIFT). Histories a correct schema cannot distinguish but a stale cache could are kept apart by the 'touched' view abstraction.",
        "note": "Trusted: the renderer of abstract names into dialect-quoted identifiers; fresh oracle = MappingSchema(deepcopy(mapping), normalize=False) with .normalize restored. match_depth=False and column-less tables are outside the modelled contract.",
    },
    "C08": {
        "engine": "Ast",
        "design_ref": "DESIGN.md section 5, C08",
        "technique": "TLA+ model (Ast.tla) checked exhaustively by TLC; every model transition replayed on real Expression objects (spec->code); trees from parse/optimizer/builders/transform validated by TLC against the same invariants (code->spec)",
        "text": "Bounded-exhaustive model checking of the tree-mutation protocol (all histories of <= 4-5 public operations on <= 6 nodes, incl. hash-cache fills and deepcopy) with LinkOK/NoSharing/HashOK/HashClosed/EqCorrect as invariants, bound to the implementation in both directions: each of the ~10^5 TLC transitions is executed on real objects and the projected real state compared with the model's, and thousands of trees produced by the real parser, optimizer rules, builders and transform (with hash()/== interleaved) are sent back to TLC for invariant evaluation. Right level: the property is a protocol invariant over all operation sequences, which is exactly what an explicit state model enumerates.",
        "note": "Trusted: the projection lib/astproj.py and the constructor-only clone builder used as 'hash from scratch'; environment assumption that values handed to mutators are detached (guard Fresh). Beyond the bound the model is only sampled via producers.",
    },
}
NOT_APPLICABLE = {}
