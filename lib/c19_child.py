"""Cold-interpreter child for C19: runs first-use operations of sqlglot in threads under a controlled or a stressed schedule.

argv[1] = JSON job:
  repo      path put first on sys.path
  ops       {"A": op, "B": op, ...}; op = {"k": attr|get|gen|direct|opt|optdirect, "m": dialect module, "cls": class name, "sql": text}
  mode      "alone"   : run ops["A"] only, in a thread, no gating (baseline)
            "probe"   : run ops["A"] alone with line gates on, report the gate labels it passes (no pausing)
            "preempt" : A runs until gate `until` (= [label, hit]); then B runs until it finishes or stalls; then A, then B
            "stress"  : all threads at once, switch interval 1e-6, no gating
  trace     line-level gates in thread A (bool)
Output (stdout, last line): JSON {results, events, deadlock, gates (probe), paused (preempt)}
"""
import json
import os
import sys
import threading
import time

job = json.loads(sys.argv[1])
sys.path.insert(0, job["repo"])
os.environ["SQLGLOT_VERIF"] = "1"

import importlib  # noqa: E402

import sqlglot  # noqa: E402,F401  (cold: nothing lazy has been touched yet)
from sqlglot import _verif  # noqa: E402
from sqlglot.dialects.dialect import Dialect, _Dialect  # noqa: E402
from sqlglot import generator as _gen  # noqa: E402

WATCH = sorted({o["m"] for o in job["ops"].values() if o.get("m")})
PRE_REG = set(_Dialect._classes)
REGION = (
    ("dialects/dialect.py", "__new__"), ("dialects/dialect.py", "_try_load"), ("dialects/dialect.py", "get"), ("dialects/dialect.py", "__getitem__"),
    ("generator.py", "_build_dispatch"), ("generator.py", "__init__"),
    ("dialects/__init__.py", "__getattr__"), ("optimizer/__init__.py", "__getattr__"), ("optimizer/optimizer.py", "<module>"),
)
HOOKS = {"attr_wait", "attr_locked", "attr_unlocking", "attr_done", "load_begin", "load_end", "class_begin", "class_built", "class_registered",
         "dispatch_probe", "dispatch_built", "dispatch_published", "opt_wait", "opt_locked", "opt_publish"}
MODE = job["mode"]
STALL = float(job.get("stall", 0.4))

events = []          # global order: [thread, event, module, regs, pubs]
results = {}
cond = threading.Condition()
at_gate = {}         # thread -> label while waiting at a gate
grants = {}          # thread -> number of gates it may pass (None = unlimited)
finished = set()
gate_log = []        # probe: labels passed by A
hits = {}
paused_at = [None]


def snapshot():
    regs = [k for k in WATCH if k in _Dialect._classes and k not in PRE_REG]
    pubs = sorted({c.__module__.rsplit(".", 1)[-1] for c in list(_gen._DISPATCH_CACHE) if c.__module__.rsplit(".", 1)[-1] in WATCH})
    return regs, pubs


last_snap = [None]


def record(t, e, m, force=True):
    regs, pubs = snapshot()
    key = (tuple(regs), tuple(pubs))
    if force or key != last_snap[0]:
        events.append({"t": t, "e": e, "m": m, "regs": regs, "pubs": pubs})
    last_snap[0] = key


def gate(t, label, e, m, hook):
    """Called by thread t at a potential preemption point."""
    if MODE == "probe":
        hits[label] = hits.get(label, 0) + 1
        gate_log.append(label)
        record(t, e, m, force=hook)
        return
    if MODE in ("alone", "stress"):
        if hook:
            record(t, e, m)
        return
    with cond:
        hits[(t, label)] = n = hits.get((t, label), 0) + 1
        record(t, e, m, force=hook)
        g = grants.get(t, 0)
        stop = False
        if t == "A" and until and label == until[0] and n == until[1] and paused_at[0] is None:
            stop = True
            paused_at[0] = label
            record(t, "pause", m)
        if g is None and not stop:
            return
        if stop:
            grants[t] = 0
        at_gate[t] = label
        cond.notify_all()
        while grants.get(t, 0) == 0:
            cond.wait()
        if grants[t] is not None:
            grants[t] -= 1
        at_gate.pop(t, None)
        cond.notify_all()


until = job.get("until")


def sink(e, f):
    if e not in HOOKS:
        return
    t = threading.current_thread().name
    if t not in job["ops"]:
        return
    m = f.get("module") or f.get("name") or (f.get("cls") or "").rsplit(".", 1)[-1]
    gate(t, "ev:" + e + ":" + str(m), e, str(m), True)


_verif.sink = sink


def tracer_for(t):
    def local(frame, event, arg):
        if event == "line":
            gate(t, f"ln:{frame.f_code.co_name}:{os.path.basename(frame.f_code.co_filename)}:{frame.f_lineno}", "line", "", False)
        return local

    def glob(frame, event, arg):
        code = frame.f_code
        fn = code.co_filename
        if "sqlglot" not in fn:
            return None
        for suffix, name in REGION:
            if code.co_name == name and fn.endswith(suffix):
                return local
        return None

    return glob


def do(op):
    k = op["k"]
    sql = op.get("sql") or "SELECT a FROM t"
    if k == "attr":
        cls = getattr(importlib.import_module("sqlglot.dialects"), op["cls"])
        return sqlglot.transpile(sql, read=cls, write=cls)
    if k == "get":
        cls = Dialect.get(op["m"])
        if cls is None:
            return "None"
        return sqlglot.transpile(sql, read=cls, write=cls)
    if k == "gen":
        return sqlglot.transpile(sql, read=op["m"], write=op["m"])
    if k == "direct":
        mod = importlib.import_module("sqlglot.dialects." + op["m"])
        cls = getattr(mod, op["cls"])
        return sqlglot.transpile(sql, read=cls, write=cls)
    if k == "opt":
        from sqlglot.optimizer import optimize

        return optimize(sqlglot.parse_one(sql)).sql()
    if k == "optdirect":
        from sqlglot.optimizer.optimizer import optimize

        return optimize(sqlglot.parse_one(sql)).sql()
    if k == "optattr":
        import sqlglot.optimizer as o

        return [len(o.RULES), o.optimize(sqlglot.parse_one(sql)).sql()]
    raise ValueError(k)


def body(t):
    if job.get("trace") and t == "A":
        sys.settrace(tracer_for(t))
    try:
        gate(t, "start", "start", "", True)
        results[t] = ["ok", do(job["ops"][t])]
    except BaseException as e:  # noqa: BLE001
        results[t] = ["raise", f"{type(e).__name__}: {str(e)[:200]}"]
    finally:
        sys.settrace(None)
        with cond:
            finished.add(t)
            record(t, "finish", "")
            cond.notify_all()


threads = {t: threading.Thread(target=body, args=(t,), name=t, daemon=True) for t in job["ops"]}
deadlock = False


def run_until_quiet(t, n):
    """Let thread t pass n gates (None: run free) until it finishes, waits at a gate with no grants, or stalls."""
    with cond:
        grants[t] = n
        cond.notify_all()
    if not threads[t].is_alive() and t not in finished:
        threads[t].start()
    last = time.time()
    seen = len(events)
    while True:
        with cond:
            if t in finished:
                return "finished"
            if t in at_gate and grants.get(t, 0) == 0:
                return "gate"
            cond.wait(0.02)
            if len(events) != seen:
                seen, last = len(events), time.time()
        if time.time() - last > STALL:
            return "stalled"


if MODE in ("alone", "probe"):
    grants["A"] = None
    threads["A"].start()
    threads["A"].join(60)
    deadlock = threads["A"].is_alive()
elif MODE == "stress":
    sys.setswitchinterval(1e-6)
    for t in threads.values():
        t.start()
    deadline = time.time() + 60
    for t in threads.values():
        t.join(max(0.1, deadline - time.time()))
    deadlock = any(t.is_alive() for t in threads.values())
else:
    # single preemption: A up to `until`, B as far as it gets, A to the end, B to the end
    ra = run_until_quiet("A", None)
    rb = run_until_quiet("B", None)
    if ra != "finished":
        with cond:
            grants["A"] = None
            cond.notify_all()
    deadline = time.time() + float(job.get("deadline", 60))
    while time.time() < deadline and len(finished) < len(threads):
        with cond:
            for t in threads:
                grants[t] = None
            cond.notify_all()
            cond.wait(0.05)
    deadlock = len(finished) < len(threads)

out = {"results": results, "events": events, "deadlock": deadlock, "paused": paused_at[0]}
if MODE == "probe":
    out["gates"] = hits
if deadlock:
    import traceback

    frames = sys._current_frames()
    out["stacks"] = {th.name: "".join(traceback.format_stack(frames[th.ident])[-6:]) for th in threading.enumerate() if th.name in threads and th.ident in frames}
sys.stdout.write("\n" + json.dumps(out) + "\n")
sys.stdout.flush()
os._exit(0)
