"""Regenerates MANIFEST.json from lib/registry.py (single source of truth for claimed checks)."""
import json, os, sys
ROOT = os.path.dirname(os.path.dirname(os.path.abspath(__file__)))
sys.path.insert(0, ROOT)
from lib.registry import CHECKS, ENGINES, NOT_APPLICABLE, HOOK_COMMITS, NOTES

def main():
    props = [json.loads(l)["id"] for l in open(os.path.join(ROOT, "properties.jsonl"))]
    checks = []
    for pid in props:
        c = CHECKS.get(pid)
        if not c:
            continue
        checks.append({
            "property_id": pid,
            "quick_cmd": f"./check {pid} --tier quick",
            "thorough_cmd": f"./check {pid} --tier thorough",
            "evidence_file": f"/verif/evidence/{pid}.json",
            "replay_cmd_template": f"./check {pid} --replay {{path}}",
            "engine": c["engine"],
            "level_claimed": {"category": c.get("category", "model_checking"), "text": c["text"], "design_ref": c["design_ref"]},
            "level_note": c["note"],
            "technique": c["technique"],
        })
    na = [{"property_id": p, "reason": NOT_APPLICABLE.get(p, "check not built yet in this round; see DESIGN.md section 5")} for p in props if p not in CHECKS]
    m = {
        "version": 1,
        "setup_cmd": "./setup.sh",
        "hooks": {
            "guard": "SQLGLOT_VERIF",
            "enable": "SQLGLOT_VERIF=1 in the environment of the checked Python process (sqlglot is pure Python here; ./check sets it and imports /repo's working tree first on sys.path)",
            "baseline_off_cmd": "cd /repo && env -u SQLGLOT_VERIF /venv/bin/python -m pytest -ra -q -p no:cacheprovider --timeout=900 --continue-on-collection-errors",
            "source_commits": HOOK_COMMITS,
            "add_only": True,
        },
        "engines": ENGINES,
        "checks": checks,
        "notes": NOTES,
        "not_applicable": na,
    }
    json.dump(m, open(os.path.join(ROOT, "MANIFEST.json"), "w"), indent=1)
    print("checks:", len(checks), "not_applicable:", len(na))

if __name__ == "__main__":
    main()
