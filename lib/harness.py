"""Common run-time for all checks: tiers, seeds, verdicts, known findings, evidence, replay files."""
from __future__ import annotations

import argparse
import hashlib
import importlib
import json
import os
import random
import shutil
import sys
import time
import traceback

ROOT = os.path.dirname(os.path.dirname(os.path.abspath(__file__)))
REPO = os.environ.get("VERIF_REPO", "/repo")
FINDINGS_FILE = os.path.join(ROOT, "KNOWN_FINDINGS.txt")

from lib.tlc import MachineryError  # noqa: E402


def load_findings():
    """finding: property=<id> key=<key> :: <what>     (suppresses exactly that key)
    fixed: property=<id> <commit> <what>             (suppresses nothing)"""
    out = {}
    if not os.path.exists(FINDINGS_FILE):
        return out
    for line in open(FINDINGS_FILE, encoding="utf-8"):
        line = line.rstrip("\n")
        if not line.startswith("finding:"):
            continue
        head, _, what = line[len("finding:") :].partition("::")
        fields = dict(f.split("=", 1) for f in head.split() if "=" in f)
        out.setdefault(fields["property"], {})[fields["key"]] = what.strip()
    return out


class Ctx:
    def __init__(self, pid: str, tier: str, seed: int):
        self.pid = pid
        self.tier = tier
        self.seed = seed
        self.rng = random.Random(seed)
        self.t0 = time.time()
        self.work = os.path.join(ROOT, ".work", pid)
        shutil.rmtree(self.work, ignore_errors=True)
        os.makedirs(self.work, exist_ok=True)
        self.replay_dir = os.path.join(ROOT, "replay", pid)
        self.known = load_findings().get(pid, {})
        self.violations: list[dict] = []
        self.known_hits: dict[str, dict] = {}
        self.drifts: list[dict] = []
        self.cov: dict = {
            "states": 0,
            "transitions": 0,
            "traces_validated_against_impl": 0,
            "evaluations": 0,
            "distinct_nontrivial": 0,
            "samples": [],
            "rule": "",
        }
        self.models: list[dict] = []  # per TLC run: module, cfg, distinct, generated, depth, wall
        self.assumptions: list[str] = []
        self.notes: dict = {}
        self._nontrivial: set = set()
        self._per_key: dict = {}
        self.level = "model_checking"

    @property
    def thorough(self) -> bool:
        return self.tier == "thorough"

    # ---- bookkeeping -------------------------------------------------------------------
    def model(self, res, module, cfg, what=""):
        self.models.append(
            {
                "module": module,
                "cfg": os.path.basename(cfg),
                "distinct_states": res.distinct,
                "states_generated": res.generated,
                "depth": res.depth,
                "wall_s": round(res.wall_s, 2),
                "what": what,
            }
        )
        self.cov["states"] += res.distinct
        self.cov["transitions"] += res.generated

    def count(self, n=1, traces=0):
        self.cov["evaluations"] += n
        self.cov["traces_validated_against_impl"] += traces

    def nontrivial(self, key):
        self._nontrivial.add(key if isinstance(key, (str, int, tuple)) else json.dumps(key, sort_keys=True))

    def sample(self, s, cap=6):
        if len(self.cov["samples"]) < cap:
            self.cov["samples"].append(s)

    def drift(self, what, detail=None):
        if len(self.drifts) < 50:
            self.drifts.append({"what": what, "detail": detail})

    def violation(self, key: str, what: str, payload: dict):
        """`key` identifies the failing site + minimal shape; listed keys are KNOWN-FINDINGs."""
        if key in self.known:
            self.known_hits.setdefault(key, {"what": self.known[key], "count": 0, "example": payload})
            self.known_hits[key]["count"] += 1
            return
        n = self._per_key.get(key, 0)
        self._per_key[key] = n + 1
        if n < 3 and len(self.violations) < 600:
            self.violations.append({"key": key, "what": what, "payload": payload})

    # ---- the end -----------------------------------------------------------------------
    def finish(self) -> int:
        self.cov["distinct_nontrivial"] = len(self._nontrivial)
        wall = time.time() - self.t0
        for k, h in sorted(self.known_hits.items()):
            print(f"KNOWN-FINDING: property={self.pid} key={k} {h['what']} (seen {h['count']}x this run)")
        for d in self.drifts[:10]:
            print(f"SPEC-DRIFT property={self.pid} {d['what']}")
        paths = []
        if self.violations:
            os.makedirs(self.replay_dir, exist_ok=True)
            seen = set()
            for v in self.violations:
                if v["key"] in seen and len(paths) >= 5:
                    continue
                seen.add(v["key"])
                h = hashlib.sha1(json.dumps(v, sort_keys=True, default=str).encode()).hexdigest()[:12]
                path = os.path.join(self.replay_dir, f"{h}.json")
                with open(path, "w") as f:
                    json.dump({"property": self.pid, **v}, f, indent=1, default=str)
                paths.append(path)
                print(f"VIOLATION property={self.pid} replay={path}")
                print(f"  key={v['key']} :: {v['what']}")
                if len(paths) >= 25:
                    break
        ev = {
            "property_id": self.pid,
            "tier": self.tier,
            "seed": self.seed,
            "level": self.level,
            "coverage": dict(self.cov),
            "assumptions": self.assumptions,
            "wall_s": round(wall, 2),
            "violations": sum(self._per_key.values()),
            "violation_keys": dict(sorted(self._per_key.items())),
            "known_findings_hit": {k: v["count"] for k, v in self.known_hits.items()},
            "spec_drift": self.drifts[:20],
            "models": self.models,
            "notes": self.notes,
            "repo_head": _repo_head(),
        }
        if self.cov.get("exhaustive") is None:
            ev["coverage"].pop("exhaustive", None)
        os.makedirs(os.path.join(ROOT, "evidence"), exist_ok=True)
        with open(os.path.join(ROOT, "evidence", f"{self.pid}.json"), "w") as f:
            json.dump(ev, f, indent=1, default=str)
        shutil.rmtree(self.work, ignore_errors=True)
        print(
            f"{self.pid} {self.tier} seed={self.seed}: states={self.cov['states']} transitions={self.cov['transitions']} "
            f"traces={self.cov['traces_validated_against_impl']} evaluations={self.cov['evaluations']} "
            f"nontrivial={self.cov['distinct_nontrivial']} violations={len(self.violations)} "
            f"known={sum(h['count'] for h in self.known_hits.values())} wall={wall:.1f}s"
        )
        return 1 if self.violations else 0


def _repo_head():
    try:
        import subprocess

        return subprocess.run(["git", "-C", REPO, "rev-parse", "--short", "HEAD"], capture_output=True, text=True).stdout.strip()
    except Exception:
        return ""


def setup_repo_path():
    """The checked code is /repo's *working tree*: first on sys.path, hooks on."""
    os.environ["SQLGLOT_VERIF"] = "1"
    os.environ.setdefault("PYTHONHASHSEED", "0")
    if REPO not in sys.path:
        sys.path.insert(0, REPO)
    import sqlglot

    if not os.path.abspath(sqlglot.__file__).startswith(os.path.abspath(REPO) + os.sep):
        raise MachineryError(f"sqlglot imported from {sqlglot.__file__}, expected {REPO}")
    if os.path.exists(os.path.join(REPO, "sqlglot", "tokenizer_core.cpython-312-x86_64-linux-gnu.so")):
        raise MachineryError("compiled sqlglotc extension present; hooks would not fire")


def main(argv=None) -> int:
    ap = argparse.ArgumentParser()
    ap.add_argument("pid")
    ap.add_argument("--tier", default=os.environ.get("VERIF_TIER", "quick"), choices=["quick", "thorough"])
    ap.add_argument("--replay")
    ap.add_argument("--seed", type=int, default=None)
    a = ap.parse_args(argv)
    seed = a.seed if a.seed is not None else int(os.environ.get("VERIF_SEED", "0") or 0)
    pid = a.pid.upper()
    if os.environ.get("VERIF_DEBUG_DUMP"):
        import faulthandler

        faulthandler.dump_traceback_later(int(os.environ["VERIF_DEBUG_DUMP"]), repeat=False, exit=True)
    try:
        setup_repo_path()
        mod = importlib.import_module(f"props.{pid.lower()}")
        if a.replay:
            payload = json.load(open(a.replay))
            ctx = Ctx(pid, a.tier, seed)
            bad = mod.replay(ctx, payload)
            shutil.rmtree(ctx.work, ignore_errors=True)
            if bad:
                print(f"VIOLATION property={pid} replay={a.replay}")
                print(f"  {bad}")
                return 1
            print(f"replay OK (no violation) property={pid}")
            return 0
        ctx = Ctx(pid, a.tier, seed)
        shutil.rmtree(ctx.replay_dir, ignore_errors=True)
        mod.run(ctx)
        return ctx.finish()
    except MachineryError as e:
        print(f"MACHINERY-ERROR property={pid}: {e}", file=sys.stderr)
        return 2
    except Exception:
        traceback.print_exc()
        print(f"MACHINERY-ERROR property={pid}: harness crashed", file=sys.stderr)
        return 2
