"""Thin, strict wrapper around TLC (tla2tools 1.8).  Used by every check.

* every invocation runs under `timeout`, with its own -metadir inside the work directory,
* statistics (generated / distinct states, depth) and per-action coverage are parsed,
* lines printed with PrintT(ToJson(..)) are decoded into Python values,
* anything unexpected (parse error, TLC crash, timeout) raises MachineryError (exit 2 upstream),
  an invariant/property violation is *reported* (result.violated) and left to the caller.
"""
from __future__ import annotations

import json
import os
import re
import shutil
import subprocess
import time
from dataclasses import dataclass, field

SPEC_DIR = os.path.join(os.path.dirname(os.path.dirname(os.path.abspath(__file__))), "spec")
JAR = "/opt/veriftools/tla/tla2tools.jar:/opt/veriftools/tla/CommunityModules-deps.jar"


class MachineryError(Exception):
    pass


@dataclass
class TLCResult:
    ok: bool
    generated: int = 0
    distinct: int = 0
    depth: int = 0
    violated: list = field(default_factory=list)  # names of violated invariants / properties
    printed: list = field(default_factory=list)  # decoded PrintT(ToJson(..)) values
    tuples: list = field(default_factory=list)  # raw `<<...>>` lines printed with PrintT
    coverage: dict = field(default_factory=dict)  # action name -> (distinct, total)
    stdout: str = ""
    wall_s: float = 0.0
    cmd: str = ""
    trace: list = field(default_factory=list)  # counterexample states (text) if any


_STATS = re.compile(r"(\d+) states generated, (\d+) distinct states found, (\d+) states left on queue")
_DEPTH = re.compile(r"The depth of the complete state graph search is (\d+)")
_INV = re.compile(r"Error: Invariant (\S+) is violated")
_PROP = re.compile(r"Error: (?:Action|Temporal) propert(?:y|ies) (\S+)? ?(?:is|were) violated")
_COV = re.compile(r"^<(\w+) line \d+, col \d+ to line \d+, col \d+ of module (\w+)>: (\d+):(\d+)", re.M)


def _decode_printed(line: str):
    line = line.strip()
    if len(line) >= 2 and line[0] == '"' and line[-1] == '"' and line[1] in "{[":
        try:
            return json.loads(json.loads(line))
        except Exception:
            return None
    return None


def run(
    module: str,
    cfg: str,
    workdir: str,
    *,
    workers: int | str = 16,
    timeout_s: int = 900,
    env: dict | None = None,
    simulate: str | None = None,
    depth: int | None = None,
    seed: int | None = None,
    coverage: bool = False,
    deadlock: bool = False,
    extra: list | None = None,
    spec_dir: str = SPEC_DIR,
    java_opts: str = "",
    allow_violation: bool = True,
) -> TLCResult:
    os.makedirs(workdir, exist_ok=True)
    meta = os.path.join(workdir, f"meta_{module}_{os.path.basename(cfg)}_{os.getpid()}_{time.time_ns()}")
    cmd = [
        "timeout",
        str(timeout_s),
        "java",
        "-XX:+UseParallelGC",
        "-Xss64m",
    ]
    if java_opts:
        cmd += java_opts.split()
    cmd += [
        "-cp",
        JAR,
        "tlc2.TLC",
        "-workers",
        str(workers),
        "-metadir",
        meta,
        "-noGenerateSpecTE",
        "-config",
        cfg,
    ]
    if not deadlock:
        cmd += ["-deadlock"]
    if simulate is not None:
        cmd += ["-simulate", simulate]
    if depth is not None:
        cmd += ["-depth", str(depth)]
    if seed is not None:
        cmd += ["-seed", str(seed)]
    if coverage:
        cmd += ["-coverage", "1"]
    if extra:
        cmd += list(extra)
    cmd += [module + ".tla"]
    e = dict(os.environ)
    if env:
        e.update({k: str(v) for k, v in env.items()})
    t0 = time.time()
    p = subprocess.run(cmd, cwd=spec_dir, env=e, capture_output=True, text=True)
    wall = time.time() - t0
    shutil.rmtree(meta, ignore_errors=True)
    out = p.stdout + ("\n" + p.stderr if p.stderr.strip() else "")
    res = TLCResult(ok=False, stdout=out, wall_s=wall, cmd=" ".join(cmd))
    for line in p.stdout.splitlines():
        if line.startswith('"'):
            v = _decode_printed(line)
            if v is not None:
                res.printed.append(v)
        elif line.startswith("<<"):
            res.tuples.append(line.strip())
    m = None
    for m in _STATS.finditer(out):
        pass
    if m:
        res.generated, res.distinct = int(m.group(1)), int(m.group(2))
    m = _DEPTH.search(out)
    if m:
        res.depth = int(m.group(1))
    for m in _COV.finditer(out):
        res.coverage[m.group(1)] = (int(m.group(3)), int(m.group(4)))
    res.violated = _INV.findall(out)
    if "Error: Action property" in out or "Error: Temporal properties were violated" in out:
        res.violated.append("PROPERTY")
    if "Error: Deadlock reached" in out:
        res.violated.append("DEADLOCK")
    if p.returncode == 124:
        raise MachineryError(f"TLC timed out after {timeout_s}s: {' '.join(cmd)}")
    finished = "Model checking completed. No error has been found." in out or (
        simulate is not None and not res.violated and p.returncode == 0
    )
    if res.violated:
        res.ok = False
        # keep the counterexample text
        idx = out.find("Error:")
        res.trace = out[idx : idx + 20000].splitlines()
        if not allow_violation:
            raise MachineryError(f"unexpected model violation {res.violated} in {module}/{cfg}\n" + "\n".join(res.trace[:80]))
        return res
    if not finished:
        i = out.find("Error:")
        raise MachineryError(f"TLC failed (rc={p.returncode}) for {module}/{cfg}:\n{out[i:i+3000] if i >= 0 else out[-3000:]}")
    res.ok = True
    return res


def sany(module: str, spec_dir: str = SPEC_DIR) -> None:
    p = subprocess.run(
        ["java", "-cp", JAR, "tla2sany.SANY", module + ".tla"], cwd=spec_dir, capture_output=True, text=True
    )
    if p.returncode != 0 or "*** Errors" in p.stdout or "Fatal errors" in p.stdout:
        raise MachineryError(p.stdout[-4000:])
