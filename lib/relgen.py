"""TLC-driven generation of query skeletons and databases (spec/QueryGen.tla)."""
from __future__ import annotations

import json
import os

from lib import relq, tlc
from lib.tlc import MachineryError


def skeletons(ctx, focus, k=0, seed=1):
    cfg = os.path.join(ctx.work, f"qgen_{focus}_{k}_{seed}.cfg")
    with open(cfg, "w") as f:
        f.write(f'CONSTANTS\n  K = {k or 1}\n  Focus = "{focus}"\nINIT Init\nNEXT Next\nINVARIANT Emit\n')
    res = tlc.run("QueryGen", cfg, ctx.work, workers=8, timeout_s=900, seed=seed, allow_violation=False)
    ctx.model(res, "QueryGen", cfg, f"query skeleton generator, focus {focus}")
    sks = sorted((p["sk"] for p in res.printed), key=lambda d: json.dumps(d, sort_keys=True))
    if len(sks) != res.distinct:
        raise MachineryError("skeleton generator output incomplete")
    out, seen = [], set()
    for sk in sks:
        b = relq.build(sk)
        if not b:
            continue
        q, feats = b
        sql = relq.query_sql(q)
        if sql in seen:
            continue
        seen.add(sql)
        out.append({"sk": sk, "q": q, "feats": sorted(feats), "sql": sql})
    return out


def databases(ctx, k, seed=1):
    cfg = os.path.join(ctx.work, f"dbgen_{k}_{seed}.cfg")
    with open(cfg, "w") as f:
        f.write(f'CONSTANTS\n  K = {k}\n  Focus = "sample"\nINIT DInit\nNEXT DNext\nINVARIANT DEmit\n')
    res = tlc.run("QueryGen", cfg, ctx.work, workers=8, timeout_s=900, seed=seed, allow_violation=False)
    ctx.model(res, "QueryGen", cfg, "database generator")
    dbs = []
    for p in sorted((p["db"] for p in res.printed), key=json.dumps):
        dbs.append({t: [tuple(None if v[0] == "N" else v[1] for v in row) for row in p[t]] for t in ("t", "u", "e")})
    return relq.BASE_DBS + dbs
