"""Projection of real sqlglot trees into the abstract node store of spec/Ast.tla, plus an
independent clone builder (constructor calls only) used as the "recomputed from scratch" oracle."""
from __future__ import annotations

from sqlglot import exp

Expr = exp.Expr if hasattr(exp, "Expr") else exp.Expression


def rebuild(node):
    """Fresh clone built bottom-up with constructors only (no deepcopy, no cached hashes)."""
    memo = {}
    order = []
    stack = [node]
    seen = set()
    while stack:
        n = stack.pop()
        if id(n) in seen:
            continue
        seen.add(id(n))
        order.append(n)
        for v in n.args.values():
            if isinstance(v, Expr):
                stack.append(v)
            elif type(v) is list:
                for x in v:
                    if isinstance(x, Expr):
                        stack.append(x)
    for n in reversed(order):
        kwargs = {}
        for k in sorted(n.args):  # canonical order: the clone must not inherit the history of the args dict
            v = n.args[k]
            if isinstance(v, Expr):
                kwargs[k] = memo.get(id(v))
            elif type(v) is list:
                kwargs[k] = [memo.get(id(x)) if isinstance(x, Expr) else x for x in v]
            else:
                kwargs[k] = v
        c = n.__class__(**kwargs)
        # primitive classes skip _set_parent in __init__; irrelevant for hashing
        memo[id(n)] = c
    return memo[id(node)]


def fresh_hash(node):
    return hash(rebuild(node))


def hash_state(node):
    h = node._hash
    if h is None:
        return "none"
    try:
        return "fresh" if h == fresh_hash(node) else "stale"
    except RecursionError:
        return "stale"


def scalar_digest(node):
    """Canonical text of the non-expression args, normalised as Expr.__hash__ normalises them."""
    raw = node._hash_raw_args
    parts = []
    for k in sorted(node.args):
        v = node.args[k]
        if isinstance(v, Expr):
            continue
        if type(v) is list:
            items = []
            for x in v:
                if isinstance(x, Expr):
                    continue
                if x is None or x is False:
                    items.append("~")
                else:
                    items.append(repr(x.lower() if type(x) is str and not raw else x))
            if items:
                parts.append(f"{k}=[{','.join(items)}]")
        elif raw:
            if v:
                parts.append(f"{k}={v!r}")
        elif v is not None and v is not False:
            parts.append(f"{k}={(v.lower() if type(v) is str else v)!r}")
    return ";".join(parts)


def project_tree(root, extra_roots=()):
    """Generic projection: every Expr object reachable from root through args gets a dense id
    (DFS, args in dict order). Back pointers are reported as stored (id of the object they point to,
    0 for None, -1 for an object outside the tree)."""
    ids = {}
    nodes = []
    stack = [root, *extra_roots]
    order = []
    while stack:
        n = stack.pop()
        if id(n) in ids:
            continue
        ids[id(n)] = len(order) + 1
        order.append(n)
        kids = []
        for v in n.args.values():
            if isinstance(v, Expr):
                kids.append(v)
            elif type(v) is list:
                kids.extend(x for x in v if isinstance(x, Expr))
        stack.extend(reversed(kids))
    for n in order:
        slots = {}
        for k, v in n.args.items():
            if isinstance(v, Expr):
                slots[k] = {"t": "node", "ids": [ids[id(v)]]}
            elif type(v) is list:
                # 0 marks a non-expression element, so positions are the real list positions
                sub = [ids[id(x)] if isinstance(x, Expr) else 0 for x in v]
                if any(sub):
                    slots[k] = {"t": "list", "ids": sub}
        p = n.parent
        nodes.append(
            {
                "cls": type(n).__name__,
                "args": slots,
                "parent": 0 if p is None else ids.get(id(p), -1),
                "akey": n.arg_key or "",
                "idx": 0 if n.index is None else n.index + 1,
                "hs": hash_state(n),
                "val": scalar_digest(n),
                "quo": "",
            }
        )
    return nodes, order
