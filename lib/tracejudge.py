"""Runs a *Trace acceptor module over a list of cases (sharded over several TLC processes) and collects
exactly one verdict tuple per case id."""
from __future__ import annotations

import json
import os
import re
from concurrent.futures import ThreadPoolExecutor

from lib import tlc
from lib.tlc import MachineryError


def judge(ctx, module, cases, label, *, per_shard=3000, strip=("meta",), cfg_text="INIT Init\nNEXT Next\nINVARIANT Verdict\n", timeout_s=3000):
    """cases: list of dicts (ids are assigned here, 1..n). Returns {id: [fields of the printed tuple after the id]}."""
    for i, c in enumerate(cases):
        c["id"] = i + 1
    if not cases:
        return {}
    nshard = max(1, min(16, len(cases) // per_shard + 1))
    shards = [cases[k::nshard] for k in range(nshard)]
    verdicts = {}

    def one(k):
        sh = shards[k]
        casep = os.path.join(ctx.work, f"{module}_{label}_{k}.json")
        with open(casep, "w") as f:
            json.dump([{kk: v for kk, v in c.items() if kk not in strip} for c in sh], f)
        cfgp = os.path.join(ctx.work, f"{module}_{label}_{k}.cfg")
        with open(cfgp, "w") as f:
            f.write(cfg_text)
        return tlc.run(module, cfgp, ctx.work, workers=2 if nshard > 4 else 8, timeout_s=timeout_s, env={"CASES": casep}, allow_violation=False), cfgp

    with ThreadPoolExecutor(max_workers=8) as ex:
        for res, cfgp in ex.map(one, range(nshard)):
            ctx.model(res, module, cfgp, f"clauses evaluated by TLC on recorded real behaviour ({label})")
            for line in res.tuples:
                m = re.match(r'<<"V", (\d+), (.*)>>$', line)
                if not m:
                    continue
                cid = int(m.group(1))
                if cid in verdicts:
                    raise MachineryError(f"duplicate verdict for case {cid} in {module}")
                fields = []
                for tok in re.findall(r'"([^"]*)"|(-?\d+)|(TRUE|FALSE)', m.group(2)):
                    fields.append(tok[0] if tok[0] or (not tok[1] and not tok[2]) else (int(tok[1]) if tok[1] else tok[2] == "TRUE"))
                verdicts[cid] = fields
    missing = [c["id"] for c in cases if c["id"] not in verdicts]
    if missing:
        raise MachineryError(f"{module} printed no verdict for {len(missing)} cases, e.g. ids {missing[:5]}")
    return verdicts
