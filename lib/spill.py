"""Large emitted-transition lists are handed to worker processes through files: a forked worker otherwise inherits the
parent's whole list (thorough tiers emit millions of records) and 16 workers touching it exhaust the machine's memory."""
import os
import pickle


def spill(work_dir, label, chunks):
    """Write each non-empty chunk to <work_dir>/<label>_<k>.pkl and return the paths."""
    paths = []
    for k, c in enumerate(chunks):
        if not c:
            continue
        p = os.path.join(work_dir, f"spill_{label}_{k}.pkl")
        with open(p, "wb") as f:
            pickle.dump(c, f, protocol=pickle.HIGHEST_PROTOCOL)
        paths.append(p)
    return paths


def load(path):
    with open(path, "rb") as f:
        data = pickle.load(f)
    try:
        os.remove(path)
    except OSError:
        pass
    return data
