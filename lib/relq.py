"""Relational query terms shared by C11 / C03 / C02: skeleton -> query term -> SQL text; small databases; engine
runners (DuckDB, SQLite, sqlglot's Python executor); value encoding for the TLA+ acceptors (RelSem / RelTrace).

Query term (JSON; the same structure spec/RelSem.tla evaluates):
  select block: {"kind": "select", "distinct": 0|1, "proj": [[expr, name]..], "from": src, "joins": [[kind, src, on]..],
                 "where": expr|["none"], "group": [expr..], "aggregated": bool, "having": expr|["none"],
                 "order": [[expr, "asc"|"desc", "first"|"last"]..], "limit": n|-1, "offset": n|-1,
                 "ctes": [[name, query]..]  (rendering only; references are already inlined as "sub" sources, tagged "cte")}
  set operation: {"kind": "setop", "op": "union"|"intersect"|"except", "all": 0|1, "left": q, "right": q}
  src: ["table", name, alias] | ["sub", query, alias] | ["sub", query, alias, "cte", ctename]
"""
from __future__ import annotations

import copy
import itertools

SCHEMA = {"t": ["a", "b"], "u": ["a", "c"], "e": ["a", "d"]}
TYPED_SCHEMA = {t: {c: "INT" for c in cols} for t, cols in SCHEMA.items()}

SYM = {"eq": "=", "neq": "<>", "lt": "<", "lte": "<=", "gt": ">", "gte": ">=", "add": "+", "sub": "-", "mul": "*", "and": "AND", "or": "OR", "div": "/"}


def C(q, c):
    return ["col", f"{q}.{c}"]


def sel(**kw):
    d = {"kind": "select", "distinct": 0, "proj": [], "from": None, "joins": [], "where": ["none"], "group": [], "aggregated": False,
         "having": ["none"], "order": [], "limit": -1, "offset": -1, "ctes": []}
    d.update(kw)
    return d


# ------------------------------------------------------------------------------------------
# rendering
# ------------------------------------------------------------------------------------------
def expr_sql(e):
    t = e[0]
    if t == "col":
        return e[1]
    if t == "int":
        return str(e[1]) if e[1] >= 0 else f"({e[1]})"
    if t == "str":
        return "'" + e[1].replace("'", "''") + "'"
    if t == "bool":
        return "TRUE" if e[1] else "FALSE"
    if t == "null":
        return "NULL"
    if t == "paren":
        return f"({expr_sql(e[1])})"
    if t in ("and", "or"):
        return f"({expr_sql(e[1])} {SYM[t]} {expr_sql(e[2])})"
    if t in SYM:
        return f"{expr_sql(e[1])} {SYM[t]} {expr_sql(e[2])}"
    if t == "not":
        return f"NOT ({expr_sql(e[1])})"
    if t == "neg":
        return f"-{expr_sql(e[1])}" if e[1][0] in ("col", "int") else f"-({expr_sql(e[1])})"
    if t == "isnull":
        return f"{expr_sql(e[1])} IS NULL"
    if t == "between":
        return f"{expr_sql(e[1])} BETWEEN {expr_sql(e[2])} AND {expr_sql(e[3])}"
    if t == "in":
        return f"{expr_sql(e[1])} IN ({', '.join(expr_sql(v) for v in e[2])})"
    if t == "coalesce":
        return f"COALESCE({', '.join(expr_sql(v) for v in e[1])})"
    if t == "case":
        s = "CASE " + " ".join(f"WHEN {expr_sql(c)} THEN {expr_sql(v)}" for c, v in e[1])
        return s + (f" ELSE {expr_sql(e[2])}" if e[2][0] != "none" else "") + " END"
    if t == "agg":
        fn = e[1]
        if fn == "count_star":
            return "COUNT(*)"
        if fn == "count_distinct":
            return f"COUNT(DISTINCT {expr_sql(e[2])})"
        return f"{fn.upper()}({expr_sql(e[2])})"
    if t == "in_sub":
        return f"{expr_sql(e[1])} IN ({query_sql(e[2])})"
    if t == "not_in_sub":
        return f"{expr_sql(e[1])} NOT IN ({query_sql(e[2])})"
    if t == "exists":
        return f"EXISTS ({query_sql(e[1])})"
    if t == "scalar_sub":
        return f"({query_sql(e[1])})"
    if t == "raw":
        return e[1]
    raise ValueError(f"cannot render {e}")


def src_sql(s):
    if s[0] == "table":
        return f"{s[1]} AS {s[2]}"
    if len(s) > 3 and s[3] == "cte":
        return f"{s[4]} AS {s[2]}"
    return f"({query_sql(s[1])}) AS {s[2]}"


def query_sql(q):
    if q["kind"] == "setop":
        return f"{query_sql(q['left'])} {q['op'].upper()}{' ALL' if q['all'] else ''} {query_sql(q['right'])}"
    parts = []
    if q.get("ctes"):
        parts.append("WITH " + ", ".join(f"{n} AS ({query_sql(cq)})" for n, cq in q["ctes"]))
    parts.append("SELECT " + ("DISTINCT " if q["distinct"] else "") + ", ".join(f"{expr_sql(e)} AS {n}" for e, n in q["proj"]))
    parts.append("FROM " + src_sql(q["from"]))
    for kind, s, on in q["joins"]:
        if kind == "cross":
            parts.append(f"CROSS JOIN {src_sql(s)}")
        else:
            parts.append(f"{kind.upper()} JOIN {src_sql(s)} ON {expr_sql(on)}")
    if q["where"][0] != "none":
        parts.append("WHERE " + expr_sql(q["where"]))
    if q["group"]:
        parts.append("GROUP BY " + ", ".join(expr_sql(g) for g in q["group"]))
    if q["having"][0] != "none":
        parts.append("HAVING " + expr_sql(q["having"]))
    if q["order"]:
        parts.append("ORDER BY " + ", ".join(f"{expr_sql(e)} {d.upper()} NULLS {n.upper()}" for e, d, n in q["order"]))
    if q["limit"] >= 0:
        parts.append(f"LIMIT {q['limit']}")
    if q["offset"] >= 0:
        parts.append(f"OFFSET {q['offset']}")
    return " ".join(parts)


def sem_term(q):
    """The term RelSem evaluates: rendering-only fields dropped, NOT IN desugared."""
    def ex(e):
        if isinstance(e, list) and e and isinstance(e[0], str):
            if e[0] == "not_in_sub":
                return ["not", ["in_sub", ex(e[1]), qq(e[2])]]
            if e[0] in ("in_sub",):
                return ["in_sub", ex(e[1]), qq(e[2])]
            if e[0] in ("exists", "scalar_sub"):
                return [e[0], qq(e[1])]
            return [e[0]] + [ex(x) for x in e[1:]]
        if isinstance(e, list):
            return [ex(x) for x in e]
        return e

    def src(s):
        return ["table", s[1], s[2]] if s[0] == "table" else ["sub", qq(s[1]), s[2]]

    def qq(q):
        if q["kind"] == "setop":
            return {"kind": "setop", "op": q["op"], "all": q["all"], "left": qq(q["left"]), "right": qq(q["right"])}
        return {"kind": "select", "distinct": q["distinct"], "proj": [[ex(e), n] for e, n in q["proj"]], "from": src(q["from"]),
                "joins": [[k, src(s), ex(on) if on is not None else ["bool", 1]] for k, s, on in q["joins"]], "where": ex(q["where"]),
                "group": [ex(g) for g in q["group"]], "aggregated": bool(q["aggregated"]), "having": ex(q["having"]),
                "order": [[ex(e), d, n] for e, d, n in q["order"]], "limit": q["limit"], "offset": q["offset"]}

    return qq(q)


# ------------------------------------------------------------------------------------------
# skeleton -> query
# ------------------------------------------------------------------------------------------
def build(sk):
    """sk: dict of feature choices (from spec/QueryGen.tla). Returns (query term, feature set) or None if the combination is not meaningful."""
    feats = set()
    inner_t = sel(proj=[[C("t", "a"), "a"], [C("t", "b"), "b"]], **{"from": ["table", "t", "t"]})
    ctes = []
    src = sk["src"]
    if src == "table":
        frm = ["table", "t", "x"]
    elif src in ("derived", "cte", "cte2"):
        q0 = copy.deepcopy(inner_t)
        if sk.get("inner_where"):
            q0["where"] = ["gt", C("t", "b"), ["int", 0]]
        frm = ["sub", q0, "x"] if src == "derived" else ["sub", q0, "x", "cte", "c0"]
        if src != "derived":
            ctes.append(["c0", q0])
    elif src == "derived_group":
        q0 = sel(proj=[[C("t", "a"), "a"], [["agg", "sum", C("t", "b")], "b"]], group=[C("t", "a")], aggregated=True, **{"from": ["table", "t", "t"]})
        frm = ["sub", q0, "x"]
    elif src == "derived_limit":
        q0 = sel(proj=[[C("t", "a"), "a"], [C("t", "b"), "b"]], order=[[C("t", "a"), "asc", "first"], [C("t", "b"), "asc", "first"]], limit=2, **{"from": ["table", "t", "t"]})
        frm = ["sub", q0, "x"]
    elif src == "derived_distinct":
        q0 = sel(distinct=1, proj=[[C("t", "a"), "a"], [C("t", "b"), "b"]], **{"from": ["table", "t", "t"]})
        frm = ["sub", q0, "x"]
    elif src == "derived_expr":
        q0 = sel(proj=[[["sub", C("t", "a"), C("t", "b")], "a"], [C("t", "b"), "b"]], **{"from": ["table", "t", "t"]})
        frm = ["sub", q0, "x"]
    elif src == "derived_union":
        q0 = {"kind": "setop", "op": "union", "all": 1, "left": copy.deepcopy(inner_t),
              "right": sel(proj=[[C("e", "a"), "a"], [C("e", "d"), "b"]], **{"from": ["table", "e", "e"]})}
        frm = ["sub", q0, "x"]
    else:
        return None
    feats.add(f"src:{src}")
    joins = []
    j1 = sk["j1"]
    ycols = ("a", "c")
    if j1 != "none":
        j1src = sk["j1src"]
        if j1src == "table":
            s1 = ["table", "u", "y"]
        elif j1src == "derived":
            s1 = ["sub", sel(proj=[[C("u", "a"), "a"], [C("u", "c"), "c"]], **{"from": ["table", "u", "u"]}), "y"]
        elif j1src == "derived_where":
            s1 = ["sub", sel(proj=[[C("u", "a"), "a"], [C("u", "c"), "c"]], where=["gt", C("u", "c"), ["int", 0]], **{"from": ["table", "u", "u"]}), "y"]
        elif j1src == "distinct_key":
            s1 = ["sub", sel(distinct=1, proj=[[C("u", "a"), "a"]], **{"from": ["table", "u", "u"]}), "y"]
            ycols = ("a",)
        elif j1src == "group_key":
            s1 = ["sub", sel(proj=[[C("u", "a"), "a"], [["agg", "max", C("u", "c")], "c"]], group=[C("u", "a")], aggregated=True, **{"from": ["table", "u", "u"]}), "y"]
        elif j1src == "agg_row":
            s1 = ["sub", sel(proj=[[["agg", "max", C("u", "c")], "c"], [["agg", "count_star"], "a"]], aggregated=True, **{"from": ["table", "u", "u"]}), "y"]
        elif j1src == "limit1":
            s1 = ["sub", sel(proj=[[C("u", "a"), "a"], [C("u", "c"), "c"]], order=[[C("u", "a"), "asc", "first"], [C("u", "c"), "asc", "first"]], limit=1, **{"from": ["table", "u", "u"]}), "y"]
        elif j1src == "cte2" and src == "cte2":
            s1 = ["sub", copy.deepcopy(ctes[0][1]), "y", "cte", "c0"]
            ycols = ("a", "b")
        else:
            return None
        if j1 == "cross":
            on = None
        else:
            on = ["eq", C("x", "a"), C("y", "a")]
            if sk["on1"] == "eq_pred" and len(ycols) > 1:
                on = ["and", on, ["gt", C("y", ycols[1]), ["int", 1]]]
            elif sk["on1"] == "eq_lpred":
                on = ["and", on, ["gt", C("x", "b"), ["int", 1]]]
            elif sk["on1"] == "eq2" and len(ycols) > 1:
                on = ["and", on, ["eq", C("x", "b"), C("y", ycols[1])]]   # two-column equi-join key
        joins.append([j1, s1, on])
        feats.add(f"j1:{j1}:{j1src}")
    elif src == "cte2":
        return None
    j2 = sk["j2"]
    if j2 != "none":
        if j1 == "none":
            return None
        joins.append([j2, ["table", "e", "z"], None if j2 == "cross" else ["eq", C("x", "a"), C("z", "a")]])
        feats.add(f"j2:{j2}")
    if sk.get("j3", "none") != "none":
        if j2 == "none":
            return None
        joins.append([sk["j3"], ["table", "u", "w"], ["eq", C("z", "a"), C("w", "a")]])
        feats.add(f"j3:{sk['j3']}")
    has_y = j1 != "none"
    ysecond = ycols[1] if len(ycols) > 1 else ycols[0]
    w = sk["where"]
    where = ["none"]
    if w == "l":
        where = ["gt", C("x", "b"), ["int", 1]]
    elif w == "l_isnull":
        where = ["isnull", C("x", "b")]
    elif w == "r" and has_y:
        where = ["gt", C("y", ysecond), ["int", 1]]
    elif w == "r_isnull" and has_y:
        where = ["isnull", C("y", ysecond)]
    elif w == "lr" and has_y:
        where = ["eq", C("x", "b"), C("y", ysecond)]
    elif w == "or" and has_y:
        where = ["or", ["gt", C("x", "b"), ["int", 1]], ["eq", C("y", ysecond), ["int", 1]]]
    elif w == "and_lr" and has_y:
        where = ["and", ["gt", C("x", "b"), ["int", 0]], ["lt", C("y", ysecond), ["int", 3]]]
    elif w == "z" and j2 != "none":
        where = ["gt", C("z", "d"), ["int", 1]]
    elif w in ("in_sub", "not_in_sub"):
        where = [w, C("x", "a"), sel(proj=[[C("e", "a"), "a"]], **{"from": ["table", "e", "e"]})]
    elif w == "in_sub_corr":
        where = ["in_sub", C("x", "b"), sel(proj=[[C("e", "d"), "d"]], where=["eq", C("e", "a"), C("x", "a")], **{"from": ["table", "e", "e"]})]
    elif w in ("exists_corr", "not_exists_corr"):
        ex = ["exists", sel(proj=[[["int", 1], "one"]], where=["eq", C("e", "a"), C("x", "a")], **{"from": ["table", "e", "e"]})]
        where = ex if w == "exists_corr" else ["not", ex]
    elif w == "exists_corr_neq":
        where = ["exists", sel(proj=[[["int", 1], "one"]], where=["and", ["eq", C("e", "a"), C("x", "a")], ["gt", C("e", "d"), C("x", "b")]], **{"from": ["table", "e", "e"]})]
    elif w == "scalar_corr":
        where = ["gt", C("x", "b"), ["scalar_sub", sel(proj=[[["agg", "max", C("e", "d")], "m"]], aggregated=True, where=["eq", C("e", "a"), C("x", "a")], **{"from": ["table", "e", "e"]})]]
    elif w == "scalar_corr_count":
        where = ["eq", ["scalar_sub", sel(proj=[[["agg", "count_star"], "n"]], aggregated=True, where=["eq", C("e", "a"), C("x", "a")], **{"from": ["table", "e", "e"]})], ["int", 0]]
    elif w == "scalar_uncorr":
        where = ["lte", C("x", "b"), ["scalar_sub", sel(proj=[[["agg", "max", C("e", "d")], "m"]], aggregated=True, **{"from": ["table", "e", "e"]})]]
    elif w == "scalar_corr_count_expr":
        where = ["eq", ["scalar_sub", sel(proj=[[["add", ["agg", "count_star"], ["int", 1]], "n"]], aggregated=True, where=["eq", C("e", "a"), C("x", "a")], **{"from": ["table", "e", "e"]})], ["int", 1]]
    elif w == "exists_corr_or" and has_y:
        where = ["exists", sel(proj=[[["int", 1], "one"]], where=["or", ["eq", C("e", "d"), C("x", "a")], ["eq", C("e", "d"), C("y", "a")]], **{"from": ["table", "e", "e"]})]
    elif w == "false":
        where = ["eq", ["int", 1], ["int", 0]]
    elif w != "none":
        return None
    if w != "none":
        feats.add(f"where:{w}")
    p = sk["proj"]
    group, having, aggregated = [], ["none"], False
    if p == "cols":
        proj = [[C("x", "a"), "a"], [C("x", "b"), "b"]] + ([[C("y", ysecond), "c"]] if has_y else [])
    elif p == "left_only":
        proj = [[C("x", "a"), "a"]]
    elif p == "expr":
        proj = [[["add", C("x", "a"), ["int", 1]], "a1"], [["coalesce", [C("x", "b"), ["int", 0]]], "b0"]] + ([[["case", [[["isnull", C("y", ysecond)], ["int", -1]]], C("y", ysecond)], "c"]] if has_y else [])
    elif p == "neg":
        proj = [[["neg", C("x", "a")], "na"], [["sub", ["int", 0], ["neg", C("x", "b")]], "nb"]]
    elif p == "neg_agg":
        aggregated = True
        proj = [[["agg", "sum", ["neg", C("x", "a")]], "s"], [["agg", "count_star"], "n"]]
    elif p == "sub_count":
        proj = [[C("x", "a"), "a"], [["scalar_sub", sel(proj=[[["add", ["agg", "count_star"], ["int", 1]], "n"]], aggregated=True, where=["eq", C("e", "a"), C("x", "a")], **{"from": ["table", "e", "e"]})], "n1"],
                [["scalar_sub", sel(proj=[[["sub", ["int", 10], ["agg", "count", C("e", "d")]], "n"]], aggregated=True, where=["eq", C("e", "a"), C("x", "a")], **{"from": ["table", "e", "e"]})], "n2"]]
    elif p == "agg_group":
        group = [C("x", "a")]
        aggregated = True
        proj = [[C("x", "a"), "a"], [["agg", "count_star"], "n"], [["agg", "sum", C("x", "b")], "s"]] + ([[["agg", "count", C("y", ysecond)], "cy"], [["agg", "min", C("y", ysecond)], "my"]] if has_y else [])
    elif p == "agg_global":
        aggregated = True
        proj = [[["agg", "count_star"], "n"], [["agg", "sum", C("x", "b")], "s"], [["agg", "max", C("x", "a")], "m"]] + ([[["agg", "count", C("y", ysecond)], "cy"]] if has_y else [])
    else:
        return None
    feats.add(f"proj:{p}")
    if sk["having"] != "none":
        if not aggregated or not group:
            return None
        having = ["gt", ["agg", "count_star"], ["int", 1]] if sk["having"] == "count" else ["gt", ["agg", "sum", C("x", "b")], ["int", 2]]
        feats.add(f"having:{sk['having']}")
    q = sel(distinct=1 if sk["distinct"] else 0, proj=proj, joins=joins, where=where, group=group, aggregated=aggregated, having=having, ctes=ctes, **{"from": frm})
    if sk["distinct"]:
        feats.add("distinct")
    if sk["limit"] != "none":
        # a limit only makes a deterministic result under a total order: order by every output column
        q["order"] = [[e, "asc", "first"] for e, _ in proj] if not aggregated else [[["col", n], "asc", "first"] for _, n in proj]
        if aggregated:
            # order by output aliases is rendered as raw names
            q["order"] = [[["raw", n], "asc", "first"] for _, n in proj]
        q["limit"] = int(sk["limit"])
        feats.add(f"limit:{sk['limit']}")
    so = sk["setop"]
    if so != "none":
        if sk["limit"] != "none":
            return None
        rhs_cols = [C("e", "a"), C("e", "d"), C("e", "d"), C("e", "a"), C("e", "d")]
        right = sel(proj=[[rhs_cols[i], n] for i, (_, n) in enumerate(proj)], **{"from": ["table", "e", "e"]})
        op, _, al = so.partition("_")
        if q["ctes"]:
            return None
        q = {"kind": "setop", "op": op, "all": 1 if al == "all" else 0, "left": q, "right": right}
        feats.add(f"setop:{so}")
    return q, feats


def out_names(q):
    return out_names(q["left"]) if q["kind"] == "setop" else [n for _, n in q["proj"]]


def in_sem_fragment(q):
    """RelSem covers everything build() produces except ORDER BY on raw output aliases of aggregated queries."""
    if q["kind"] == "setop":
        return in_sem_fragment(q["left"]) and in_sem_fragment(q["right"])
    return not any(e[0] == "raw" for e, _, _ in q["order"])


# ------------------------------------------------------------------------------------------
# databases and engines
# ------------------------------------------------------------------------------------------
def enc(v):
    if v is None:
        return ["N", 0]
    if isinstance(v, bool):
        return ["I", int(v)]
    if isinstance(v, int):
        return ["I", v] if abs(v) < 2**31 else ["F", str(v)]
    if isinstance(v, float):
        if v != v:
            return ["F", "nan"]
        if v in (float("inf"), float("-inf")):
            return ["F", "inf" if v > 0 else "-inf"]
        if v == int(v) and abs(v) < 2**31:
            return ["I", int(v)]
        return ["F", f"{v:.9g}"]
    if isinstance(v, str):
        return ["S", v.encode("ascii", "backslashreplace").decode()]
    try:
        from decimal import Decimal

        if isinstance(v, Decimal):
            return enc(float(v))
    except Exception:
        pass
    return ["S", ascii(v)]


def enc_rows(rows):
    return [[enc(v) for v in r] for r in rows]


def tla_db(db):
    """db: {table: [rows of python values]} -> the record RelSem expects"""
    return {"schema": {t: SCHEMA[t] for t in SCHEMA}, "tables": {t: enc_rows(db.get(t, [])) for t in SCHEMA}}


class Duck:
    def __init__(self, db):
        import duckdb

        self.con = duckdb.connect(":memory:")
        self.con.execute("SET threads = 1")  # one engine thread per worker process: deterministic plans, no oversubscription
        for t, cols in SCHEMA.items():
            self.con.execute(f"CREATE TABLE {t} ({', '.join(c + ' INTEGER' for c in cols)})")
            for r in db.get(t, []):
                self.con.execute(f"INSERT INTO {t} VALUES ({', '.join('?' for _ in cols)})", list(r))

    def run(self, sql):
        cur = self.con.execute(sql)
        names = [d[0] for d in cur.description]
        return names, cur.fetchall()


class Lite:
    def __init__(self, db):
        import sqlite3

        self.con = sqlite3.connect(":memory:")
        for t, cols in SCHEMA.items():
            self.con.execute(f"CREATE TABLE {t} ({', '.join(c + ' INTEGER' for c in cols)})")
            for r in db.get(t, []):
                self.con.execute(f"INSERT INTO {t} VALUES ({', '.join('?' for _ in cols)})", list(r))

    def run(self, sql):
        cur = self.con.execute(sql)
        names = [d[0] for d in cur.description]
        return names, cur.fetchall()


def executor_run(sql, db):
    from sqlglot.executor import execute

    tables = {t: [dict(zip(SCHEMA[t], r)) for r in db.get(t, [])] for t in SCHEMA}
    res = execute(sql, schema=TYPED_SCHEMA, tables=tables)
    return list(res.columns), [tuple(r) for r in res.rows]


# the fixed set of small databases (NULLs, duplicates, empty tables); TLC's Db generator adds sampled ones
BASE_DBS = [
    {"t": [(1, 1), (1, 2), (2, None), (None, 2)], "u": [(1, 1), (1, 2), (3, None)], "e": [(1, 2), (2, 1), (None, None)]},
    {"t": [(1, 2), (1, 2), (2, 3)], "u": [], "e": [(1, 1)]},
    {"t": [], "u": [(1, 1)], "e": []},
    {"t": [(1, None), (2, 2), (3, 3)], "u": [(1, 2), (2, 2), (2, 2)], "e": [(2, 3), (2, 0), (4, 4)]},
    {"t": [(None, None), (1, 3)], "u": [(None, 1), (1, None)], "e": [(1, 3), (1, 3)]},
    # keys that are only partly NULL, equal in their non-NULL part on both sides of a multi-column join
    {"t": [(2, None), (1, 1), (None, 3)], "u": [(2, None), (1, 1), (1, None), (None, 3)], "e": [(2, None), (None, 3)]},
]


# ------------------------------------------------------------------------------------------
# delta-minimisation of a failing (skeleton, database): the key of a finding is its minimal shape
# ------------------------------------------------------------------------------------------
NEUTRAL = [("setop", "none"), ("limit", "none"), ("having", "none"), ("distinct", False), ("j3", "none"), ("j2", "none"), ("where", "none"), ("inner_where", False),
           ("on1", "eq"), ("src", "table"), ("j1src", "table"), ("proj", "cols"), ("proj", "left_only"), ("j1", "inner"), ("j1", "none")]


def minimize(sk, db, fails, budget=40):
    """Greedy, deterministic: neutralise one skeleton feature at a time and drop database rows while `fails(sk, db)` stays true.
    `fails` must return False for skeletons that do not build."""
    sk = dict(sk)
    db = {t: list(db.get(t, [])) for t in SCHEMA}
    steps = 0
    changed = True
    while changed and steps < budget:
        changed = False
        for f, v in NEUTRAL:
            if sk.get(f) == v:
                continue
            cand = dict(sk)
            cand[f] = v
            steps += 1
            if build(cand) and fails(cand, db):
                sk = cand
                changed = True
        for t in SCHEMA:
            i = 0
            while i < len(db[t]) and steps < budget * 2:
                cand = {k: list(v) for k, v in db.items()}
                del cand[t][i]
                steps += 1
                if fails(sk, cand):
                    db = cand
                    changed = True
                else:
                    i += 1
    return sk, db


def shape_key(sk, db):
    b = build(sk)
    feats = sorted(f for f in (b[1] if b else []) if f not in ("src:table", "proj:cols"))
    dbf = []
    for t in SCHEMA:
        rows = db.get(t, [])
        if not rows:
            dbf.append(f"{t}=empty")
        elif any(v is None for r in rows for v in r):
            dbf.append(f"{t}~null")
    return "+".join(feats) or "plain"


# ------------------------------------------------------------------------------------------
# C02: the transpilation fragment (ordering without explicit NULLS, LIMIT/OFFSET, division, ||, NULL-aware functions,
# operator grouping, and on the DuckDB side QUALIFY / DISTINCT ON / SEMI-ANTI joins)
# ------------------------------------------------------------------------------------------
T_EXPRS = {
    "none": None,
    "div_int": "x.a / x.b",
    "div_lit": "x.b / 2",
    "div_mixed": "x.a * 1.0 / x.b",
    "div_zero": "x.a / (x.b - x.b)",
    "div_chain": "x.a / x.b * 2",
    "mod": "x.a % 2",
    "concat": "x.a || x.b",
    "concat_prec": "x.a || x.b + 1",
    "ifnull": "IFNULL(x.b, 0)",
    "coalesce": "COALESCE(x.b, x.a, 0)",
    "coalesce2": "COALESCE(x.b, x.a)",
    "ifnull2": "IFNULL(x.b, x.a)",
    "div_chain2": "x.b / 3 * 3",
    "count_win": "COUNT(x.b) OVER (PARTITION BY x.a)",
    "nullif": "NULLIF(x.a, x.b)",
    "case": "CASE WHEN x.b IS NULL THEN -1 WHEN x.b > 1 THEN x.b ELSE 0 END",
    "paren_sub": "x.a - (x.b - 1)",
    "paren_mul": "(x.a + x.b) * 2 - x.a",
    "neg": "-x.a - -x.b",
    "cmp_null": "x.a = x.b",
    "not_in": "x.a NOT IN (1, x.b)",
    "between": "x.a BETWEEN x.b AND 3",
    "abs": "ABS(x.a - x.b)",
    "cast": "CAST(x.a AS TEXT) || '-' || CAST(x.b AS TEXT)",
    "min_agg": None,
}


def build_transpile(sk, side):
    """sk: skeleton of the 'transpile' focus; side: 'sqlite' | 'duckdb' (which dialect the text is written in).
    Returns (sql, ordered, feats) or None."""
    feats = set()
    e = T_EXPRS.get(sk["expr"])
    proj = ["x.a AS a", "x.b AS b"]
    if e:
        proj.append(f"{e} AS v")
        feats.add(f"expr:{sk['expr']}")
    frm = "t AS x"
    where = ""
    special = sk["special"]
    if special != "none":
        if side != "duckdb":
            return None
        feats.add(f"special:{special}")
    if sk["join"] == "inner":
        frm += " INNER JOIN u AS y ON x.a = y.a"
        proj.append("y.c AS c")
        feats.add("join:inner")
    elif sk["join"] == "left":
        frm += " LEFT JOIN u AS y ON x.a = y.a"
        proj.append("y.c AS c")
        feats.add("join:left")
    if special == "semi":
        frm += " SEMI JOIN e AS z ON x.a = z.a"
    elif special == "anti":
        frm += " ANTI JOIN e AS z ON x.a = z.a"
    if sk["where"] == "l":
        where = " WHERE x.b > 1"
    elif sk["where"] == "isnull":
        where = " WHERE x.b IS NULL OR x.a > 1"
    if sk["where"] != "none":
        feats.add(f"where:{sk['where']}")
    sel = "SELECT "
    if sk["distinct"]:
        sel += "DISTINCT "
        feats.add("distinct")
    qualify = ""
    if special in ("qualify", "distinct_on") and sk["join"] != "none":
        return None  # with a join the "first row per key" would depend on ties the query does not order
    if special == "qualify":
        qualify = " QUALIFY ROW_NUMBER() OVER (PARTITION BY x.a ORDER BY x.b NULLS FIRST) = 1"
        if sk["distinct"]:
            return None
    if special == "qualify2":
        qualify = " QUALIFY ROW_NUMBER() OVER (PARTITION BY x.a ORDER BY x.b NULLS FIRST) = 1 AND COUNT(*) OVER (PARTITION BY x.b) > 1"
        if sk["distinct"] or sk["join"] != "none":
            return None
    if special == "distinct_on":
        if sk["distinct"]:
            return None
        sel += "DISTINCT ON (x.a) "
    names = [p.rsplit(" AS ", 1)[1] for p in proj]
    order = ""
    ordered = False
    ocol, odir, onulls = sk["ocol"], sk["odir"], sk["onulls"]
    if ocol == "e" and not e:
        return None
    if ocol != "none":
        okey = e if ocol == "e" else ocol      # "e": order by the expression itself rather than by its alias
        item = f"{okey} {odir.upper()}" + ("" if onulls == "none" else f" NULLS {onulls.upper()}")
        ties = [f"{n} ASC NULLS FIRST" for n in names if n != ocol]
        order = " ORDER BY " + ", ".join([item] + ties)
        feats.add(f"order:{odir}:{onulls}")
        ordered = True
        if special == "distinct_on":
            # DISTINCT ON picks the first row per key in this order
            order = f" ORDER BY a ASC NULLS FIRST, {item}" + "".join(f", {t}" for t in ties if not t.startswith("a "))
    elif special == "distinct_on":
        return None
    lim = ""
    if sk["limit"] != "none":
        if not ordered:
            return None
        lim = f" LIMIT {sk['limit']}"
        feats.add(f"limit:{sk['limit']}")
        if sk["offset"] != "none":
            lim += f" OFFSET {sk['offset']}"
            feats.add("offset")
    elif sk["offset"] != "none":
        return None
    sql = f"{sel}{', '.join(proj)} FROM {frm}{where}{qualify}{order}{lim}"
    return sql, ordered, sorted(feats)


class Keyer:
    """Keys a failing (skeleton, database) by its minimal shape. Full delta-minimisation is expensive, so shapes already
    found are tried first: a case whose failure survives when every feature outside a known minimal shape is neutralised
    gets that shape's key."""

    def __init__(self, neutral, shape_of, minimize_fn, cap=120):
        self.neutral = neutral          # [(feature, neutral value)] in minimisation order; the first neutral value per feature is "the" neutral
        self.base = {}
        for f, v in neutral:
            self.base.setdefault(f, v)
        self.shape_of = shape_of        # skeleton -> key string
        self.minimize_fn = minimize_fn  # (sk, db, fails) -> (sk, db)
        self.known = []                 # [(key, minimal sk, minimal db)]
        self.cache = {}
        self.cap = cap

    def key(self, sk, db, fails, cache_key):
        if cache_key in self.cache:
            return self.cache[cache_key]
        for key, msk, mdb in self.known:
            if any(sk.get(f) != msk.get(f) for f, v in self.base.items() if msk.get(f) != v):
                continue  # a known shape only explains cases that have the same non-neutral choices
            cand = dict(sk)
            for f, v in self.base.items():
                if msk.get(f) == v:
                    cand[f] = v
            try:
                if fails(cand, db):
                    self.cache[cache_key] = (key, {"sk": msk, "db": mdb})
                    return self.cache[cache_key]
            except Exception:
                pass
        if len(self.known) >= self.cap:
            res = (self.shape_of(sk) + "~unminimised", None)
        else:
            msk, mdb = self.minimize_fn(sk, db, fails)
            key = self.shape_of(msk)
            self.known.append((key, msk, mdb))
            res = (key, {"sk": msk, "db": mdb})
        self.cache[cache_key] = res
        return res
