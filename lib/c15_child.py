"""Cold-interpreter child for C15: executes one history of calls and prints one digest per step.

argv[1] = JSON {"repo": path, "steps": [{"call": {...}, "inst": "fresh"|"reused"}, ...]}
The hash seed is set by the parent through PYTHONHASHSEED.
call = {"api": tokenize|parse|generate|transpile|optimize|qualify|annotate|lineage|simplify|custom, "sql", "read", "write", ...}
A "reused" step uses the process's shared instance of the component the api exercises (Tokenizer / Parser / Generator /
Dialect instance / MappingSchema), a "fresh" step builds a new one.
"""
import json
import logging
import os
import sys

job = json.loads(sys.argv[1])
sys.path.insert(0, job["repo"])
logging.disable(logging.CRITICAL)

import sqlglot  # noqa: E402
from sqlglot import exp  # noqa: E402
from sqlglot.dialects.dialect import Dialect  # noqa: E402
from sqlglot.schema import MappingSchema  # noqa: E402

SCHEMA = {"t": {"a": "INT", "b": "INT", "c": "TEXT"}, "u": {"a": "INT", "d": "INT"}, "T": {"a": "INT", "e": "INT"}, "x": {"a": "INT", "b": "INT"}, "y": {"b": "INT", "c": "INT"}, "z": {"a": "INT", "c": "INT"},
          "orders": {"id": "INT", "k": "INT"}, "Orders": {"id": "INT", "k": "INT"}, "ORDERS": {"id": "INT", "k": "INT"}, "oRders": {"id": "INT", "k": "INT"}}
shared = {}


def get(kind, key, make, inst):
    if inst == "fresh":
        return make()
    k = (kind, key)
    if k not in shared:
        shared[k] = make()
    return shared[k]


def make_custom(base, variant):
    Base = Dialect.get_or_raise(base).__class__ if base else Dialect
    fns = [lambda self, e: "NOW()", lambda self, e: "SYSDATE()", lambda self, e: "GETDATE()", lambda self, e: "CURRENT_TS"]

    class Tenant(Base):
        class Generator(Base.Generator):
            TRANSFORMS = {**Base.Generator.TRANSFORMS, exp.CurrentTimestamp: fns[variant % 4]}

            def trim_sql(self, expression):
                return f"TRIM{variant}({self.sql(expression, 'this')})"

    return Tenant


def run(call, inst):
    api = call["api"]
    read = call.get("read") or None
    write = call.get("write") or read
    sql = call.get("sql", "")
    if api == "tokenize":
        d = Dialect.get_or_raise(read)
        tk = get("tokenizer", read, d.tokenizer, inst)
        return [[t.token_type.name, t.text, t.line, t.col] for t in tk.tokenize(sql)]
    if api == "parse":
        d = Dialect.get_or_raise(read)
        p = get("parser", read, d.parser, inst)
        trees = p.parse(d.tokenize(sql), sql)
        return [repr(t) for t in trees]
    if api == "generate":
        tree = sqlglot.parse_one(sql, read=read)
        d = Dialect.get_or_raise(write)
        g = get("generator", (write, call.get("pretty", False)), lambda: d.generator(pretty=call.get("pretty", False)), inst)
        return g.generate(tree)
    if api == "transpile":
        rd = get("dialect", read, lambda: Dialect.get_or_raise(read).__class__() if read else Dialect(), inst)
        wd = get("dialect", write, lambda: Dialect.get_or_raise(write).__class__() if write else Dialect(), inst)
        return sqlglot.transpile(sql, read=rd, write=wd, pretty=call.get("pretty", False))
    if api == "optimize_joins":
        from sqlglot.optimizer.optimize_joins import optimize_joins

        return optimize_joins(sqlglot.parse_one(sql, read=read)).sql(dialect=read)
    if api == "optimize_noschema":
        from sqlglot.optimizer import optimize

        return optimize(sqlglot.parse_one(sql, read=read), dialect=read).sql(dialect=read)
    schema = get("schema", read, lambda: MappingSchema(SCHEMA, dialect=read), inst)
    if api == "optimize":
        from sqlglot.optimizer import optimize

        return optimize(sqlglot.parse_one(sql, read=read), schema=schema, dialect=read).sql(dialect=read)
    if api == "qualify":
        from sqlglot.optimizer.qualify import qualify

        return qualify(sqlglot.parse_one(sql, read=read), schema=schema, dialect=read, validate_qualify_columns=False).sql(dialect=read)
    if api == "annotate":
        from sqlglot.optimizer.annotate_types import annotate_types
        from sqlglot.optimizer.qualify import qualify

        e = annotate_types(qualify(sqlglot.parse_one(sql, read=read), schema=schema, dialect=read, validate_qualify_columns=False), schema=schema, dialect=read)
        return [n.type.sql() if n.type else None for n in e.walk() if isinstance(n, exp.Expression) and not isinstance(n, (exp.Identifier, exp.DataType))][:200]
    if api == "simplify":
        from sqlglot.optimizer.simplify import simplify
        from sqlglot.optimizer.normalize import normalize

        e = sqlglot.parse_one(sql, read=read)
        return [simplify(e.copy()).sql(), simplify(normalize(e.copy(), dnf=call.get("dnf", False))).sql()]
    if api == "lineage":
        from sqlglot.lineage import lineage

        res = lineage(None, sql, schema=schema, dialect=read)
        out = {}
        for k, node in res.items():
            out[k] = sorted({n.name for n in node.walk() if not n.downstream})
        return out
    if api == "custom":
        cls = make_custom(call.get("base", ""), call["variant"])
        return cls().generate(sqlglot.parse_one(sql))
    raise ValueError(api)


outs = []
for st in job["steps"]:
    try:
        outs.append(json.dumps(["ok", run(st["call"], st["inst"])], default=str, sort_keys=False))
    except RecursionError:
        outs.append(json.dumps(["raise", "RecursionError"]))
    except Exception as e:  # noqa: BLE001
        outs.append(json.dumps(["raise", f"{type(e).__name__}: {str(e)[:300]}"]))
sys.stdout.write("\n" + json.dumps({"outs": outs}) + "\n")
sys.stdout.flush()
os._exit(0)
