"""Resource guards for worker processes that execute possibly-broken library code."""
import contextlib
import resource
import signal


def limits(mem_gb: float = 6.0):
    lim = int(mem_gb * (1 << 30))
    try:
        resource.setrlimit(resource.RLIMIT_AS, (lim, lim))
    except Exception:
        pass


class _Timeout(TimeoutError):
    pass


@contextlib.contextmanager
def time_limit(seconds: float):
    def handler(signum, frame):
        raise _Timeout(f"exceeded {seconds}s")

    old = signal.signal(signal.SIGALRM, handler)
    signal.setitimer(signal.ITIMER_REAL, seconds)
    try:
        yield
    finally:
        signal.setitimer(signal.ITIMER_REAL, 0)
        signal.signal(signal.SIGALRM, old)
