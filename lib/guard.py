"""Resource guards for worker processes that execute possibly-broken library code."""
import contextlib
import resource
import signal


def limits(mem_gb: float = 6.0):
    """Cap the address space at what the process already maps (a forked worker inherits the parent's, which holds the
    emitted transitions in thorough runs) plus mem_gb."""
    try:
        with open("/proc/self/statm") as f:
            current = int(f.read().split()[0]) * resource.getpagesize()
    except Exception:
        current = 0
    lim = current + int(mem_gb * (1 << 30))
    try:
        resource.setrlimit(resource.RLIMIT_AS, (lim, lim))
    except Exception:
        pass


class HardTimeout(BaseException):
    """Not an Exception on purpose: library code that catches Exception (the tokenizer wraps every Exception into
    TokenError, the parser's _try_parse catches ParseError) must not be able to swallow the time limit."""


_Timeout = HardTimeout


@contextlib.contextmanager
def time_limit(seconds: float):
    """Limit on the CPU time the guarded block may use (ITIMER_PROF: not fooled by a loaded or stalled machine), with a
    wall-clock backstop of 15x for code that blocks instead of spinning."""

    def handler(signum, frame):
        raise _Timeout(f"exceeded {seconds}s")

    old_prof = signal.signal(signal.SIGPROF, handler)
    old_alrm = signal.signal(signal.SIGALRM, handler)
    signal.setitimer(signal.ITIMER_PROF, seconds, 1.0)  # keeps firing every second should the first exception get lost
    signal.setitimer(signal.ITIMER_REAL, seconds * 15, 5.0)
    try:
        yield
    finally:
        signal.setitimer(signal.ITIMER_PROF, 0)
        signal.setitimer(signal.ITIMER_REAL, 0)
        signal.signal(signal.SIGPROF, old_prof)
        signal.signal(signal.SIGALRM, old_alrm)
