"""Renderer of Grammar.tla terms as base-dialect SQL text (shared by C01 and C07) and the other input families
(corpora, time-format functions per dialect, comment placements)."""
from __future__ import annotations

import json
import zlib

ATOMS = {
    "a": "a", "t.b": "t.b", "qid": '"q x"', "int": "1", "float": "1.5", "exp": "1e3", "str": "'x'", "str_quote": "'it''s'", "str_nl": "'l1\nl2'", "null": "NULL", "true": "TRUE",
    "date": "DATE '2020-01-02'", "ts": "TIMESTAMP '2020-01-02 03:04:05'", "iv_day": "INTERVAL '1' DAY", "iv_ym": "INTERVAL '1-2' YEAR TO MONTH", "iv_ds": "INTERVAL '1 2:03:04' DAY TO SECOND",
    "star_count": "COUNT(*)", "param": "?",
}
E = {
    "neg": "-{0}", "not": "NOT {0}", "paren": "({0})", "isnull": "{0} IS NULL", "isnotnull": "{0} IS NOT NULL", "istrue": "{0} IS TRUE", "cast_int": "CAST({0} AS INT)", "cast_dec": "CAST({0} AS DECIMAL(10, 2))",
    "cast_text": "CAST({0} AS TEXT)", "try_cast": "TRY_CAST({0} AS DOUBLE)", "upper": "UPPER({0})", "abs": "ABS({0})", "exists": "EXISTS(SELECT 1 FROM u WHERE u.c = {0})", "sum": "SUM({0})",
    "count_distinct": "COUNT(DISTINCT {0})", "win_sum": "SUM({0}) OVER (PARTITION BY a ORDER BY t.b)", "win_rank": "RANK() OVER (ORDER BY {0} DESC)",
    "win_frame": "AVG({0}) OVER (ORDER BY a ROWS BETWEEN 1 PRECEDING AND CURRENT ROW)", "extract": "EXTRACT(YEAR FROM {0})", "dcolon": "{0}::INT", "bitnot": "~{0}", "scalar_sub": "(SELECT MAX(c) FROM u WHERE u.c > {0})",
    "any_sub": "{0} = ANY(SELECT c FROM u)", "in_sub": "{0} IN (SELECT c FROM u)", "not_in_list": "{0} NOT IN (1, 2)", "array_lit": "ARRAY[{0}, 2]", "struct_dot": "({0}).f", "lower_trim": "LOWER(TRIM({0}))",
    "filter_agg": "SUM({0}) FILTER(WHERE a > 1)", "within_group": "PERCENTILE_CONT(0.5) WITHIN GROUP (ORDER BY {0})",
    "or": "{0} OR {1}", "and": "{0} AND {1}", "=": "{0} = {1}", "<>": "{0} <> {1}", "<": "{0} < {1}", "<=": "{0} <= {1}", ">": "{0} > {1}", ">=": "{0} >= {1}", "+": "{0} + {1}", "-": "{0} - {1}",
    "*": "{0} * {1}", "/": "{0} / {1}", "%": "{0} % {1}", "||": "{0} || {1}", "like": "{0} LIKE {1}", "not_like": "{0} NOT LIKE {1}", "ilike": "{0} ILIKE {1}", "in2": "{0} IN ({1}, 3)",
    "is_distinct": "{0} IS DISTINCT FROM {1}", "div": "{0} DIV {1}", "&": "{0} & {1}", "|": "{0} | {1}", "^": "{0} ^ {1}", "<<": "{0} << {1}", "coalesce": "COALESCE({0}, {1})", "nullif": "NULLIF({0}, {1})",
    "mod": "MOD({0}, {1})", "json_arrow": "{0} -> {1}", "index": "{0}[{1}]", "at_tz": "{0} AT TIME ZONE {1}", "concat": "CONCAT({0}, {1})", "pow": "POWER({0}, {1})", "like_escape": "{0} LIKE {1} ESCAPE '!'",
    "is_not_distinct": "{0} IS NOT DISTINCT FROM {1}", "xor": "{0} XOR {1}", "cmp_any": "{0} > ALL(ARRAY[{1}])", "greatest": "GREATEST({0}, {1}, 0)",
    "between": "{0} BETWEEN {1} AND {2}", "not_between": "{0} NOT BETWEEN {1} AND {2}", "case": "CASE WHEN {0} THEN {1} ELSE {2} END", "case_operand": "CASE {0} WHEN {1} THEN {2} END", "if": "IF({0}, {1}, {2})",
    "substring": "SUBSTRING({0}, {1}, {2})", "case2": "CASE WHEN {0} THEN {1} WHEN NOT {0} THEN {2} ELSE NULL END", "between_sym": "{0} BETWEEN {1} + 1 AND {2}",
}
S = {
    "select": "SELECT {e1} AS c, {e2} FROM t", "select_where": "SELECT a FROM t WHERE {e1} AND {e2}", "select_distinct": "SELECT DISTINCT {e1}, a FROM t", "group_having": "SELECT a, SUM(b) FROM t GROUP BY a, {e1} HAVING {e2}",
    "order_limit": "SELECT a FROM t ORDER BY {e1} DESC, a LIMIT 10", "order_nulls": "SELECT a FROM t ORDER BY {e1} ASC NULLS LAST, {e2} DESC NULLS FIRST", "join_inner": "SELECT t.a FROM t JOIN u ON {e1} AND t.a = u.c",
    "join_left": "SELECT t.a FROM t LEFT JOIN u ON t.a = u.c AND {e1} WHERE {e2}", "join_cross": "SELECT {e1} FROM t CROSS JOIN u", "join_using": "SELECT {e1} FROM t JOIN u USING (a) LEFT JOIN v USING (a, b)",
    "join_full_where": "SELECT {e1} FROM t FULL OUTER JOIN u ON t.a = u.c WHERE {e2}", "derived": "SELECT s.c FROM (SELECT {e1} AS c FROM t WHERE {e2}) AS s", "cte": "WITH c AS (SELECT {e1} AS x FROM t) SELECT x FROM c WHERE {e2}",
    "cte2": "WITH c AS (SELECT a FROM t), d AS (SELECT a FROM c WHERE {e1}) SELECT {e2} FROM d", "cte_recursive": "WITH RECURSIVE r(n) AS (SELECT 1 UNION ALL SELECT n + 1 FROM r WHERE {e1}) SELECT n FROM r",
    "union": "SELECT {e1} FROM t UNION SELECT {e2} FROM u", "union_all": "SELECT {e1} FROM t UNION ALL SELECT {e2} FROM u", "intersect": "SELECT {e1} FROM t INTERSECT SELECT {e2} FROM u", "except": "SELECT {e1} FROM t EXCEPT SELECT {e2} FROM u",
    "chain3": "SELECT {e1} FROM t UNION SELECT 2 UNION ALL SELECT {e2}", "chain3_mod_first": "SELECT {e1} FROM t ORDER BY 1 LIMIT 2 UNION SELECT 2 UNION SELECT 3", "chain3_mod_mid": "SELECT {e1} UNION SELECT 2 ORDER BY 1 UNION SELECT 3",
    "chain3_mod_last": "SELECT {e1} UNION SELECT 2 UNION SELECT 3 ORDER BY 1 LIMIT 1 OFFSET 1", "chain_paren": "(SELECT {e1} FROM t ORDER BY 1 LIMIT 1) UNION ALL (SELECT 2 LIMIT 1) INTERSECT SELECT {e2}",
    "union_order_limit": "SELECT a FROM t UNION SELECT c FROM u WHERE {e1} ORDER BY 1 DESC LIMIT 5", "window_named": "SELECT SUM(a) OVER w FROM t WINDOW w AS (PARTITION BY {e1} ORDER BY a)",
    "window_frame": "SELECT SUM(a) OVER (PARTITION BY b ORDER BY {e1} RANGE BETWEEN UNBOUNDED PRECEDING AND 1 FOLLOWING) FROM t", "qualify": "SELECT a FROM t QUALIFY ROW_NUMBER() OVER (PARTITION BY a ORDER BY {e1}) = 1",
    "lateral": "SELECT s.c FROM t, LATERAL (SELECT {e1} AS c) AS s", "values": "SELECT * FROM (VALUES (1, {e1}), (2, {e2})) AS v(x, y)", "select_star_except": "SELECT t.*, {e1} FROM t",
    "subquery_where": "SELECT a FROM t WHERE a IN (SELECT c FROM u WHERE {e1}) OR {e2}", "limit_offset": "SELECT {e1} FROM t LIMIT 3 OFFSET 2", "distinct_on": "SELECT DISTINCT ON (a) a, {e1} FROM t ORDER BY a",
    "tablesample": "SELECT {e1} FROM t TABLESAMPLE (10 PERCENT)", "for_update": "SELECT {e1} FROM t WHERE {e2} FOR UPDATE", "select_into_alias": "SELECT {e1} AS \"my col\", {e2} AS x FROM t AS \"T 1\"",
    "nested_paren_query": "SELECT * FROM ((SELECT {e1} AS c FROM t) UNION (SELECT 2)) AS s", "union_in_cte": "WITH c AS (SELECT {e1} AS x UNION ALL SELECT 2 ORDER BY 1) SELECT x FROM c", "exists_where": "SELECT a FROM t WHERE NOT EXISTS(SELECT 1 FROM u WHERE {e1})",
    "insert_select": "INSERT INTO t (a, b) SELECT {e1}, 2 FROM u WHERE {e2}", "insert_values": "INSERT INTO t VALUES ({e1}, 2), (3, 4)", "insert_cols": "INSERT INTO t (a) VALUES ({e1})", "update": "UPDATE t SET a = {e1}, b = 2 WHERE {e2}",
    "update_from": "UPDATE t SET a = u.c FROM u WHERE t.a = u.c AND {e1}", "delete": "DELETE FROM t WHERE {e1}", "delete_using": "DELETE FROM t USING u WHERE t.a = u.c AND {e1}",
    "merge": "MERGE INTO t USING u ON t.a = u.c WHEN MATCHED AND {e1} THEN UPDATE SET a = 1 WHEN NOT MATCHED THEN INSERT (a) VALUES (u.c)", "create_table": "CREATE TABLE t (a INT, b TEXT, c DECIMAL(10, 2))",
    "create_table_constraints": "CREATE TABLE t (a INT NOT NULL PRIMARY KEY, b VARCHAR(10) UNIQUE, c INT REFERENCES u (c), CHECK ({e1}))", "create_table_as": "CREATE TABLE t2 AS SELECT {e1} AS c FROM t WHERE {e2}",
    "create_view": "CREATE VIEW v AS SELECT {e1} AS c FROM t", "create_index": "CREATE INDEX i ON t (a, b)", "drop_table": "DROP TABLE IF EXISTS t", "drop_view": "DROP VIEW v", "alter_add": "ALTER TABLE t ADD COLUMN d INT",
    "alter_drop": "ALTER TABLE t DROP COLUMN d", "alter_rename": "ALTER TABLE t RENAME TO t3", "truncate": "TRUNCATE TABLE t", "create_schema": "CREATE SCHEMA s", "create_temp": "CREATE TEMPORARY TABLE tt (a INT)",
    "create_if_not_exists": "CREATE TABLE IF NOT EXISTS t (a INT DEFAULT 1, b TIMESTAMP)", "insert_on_conflict": "INSERT INTO t (a) VALUES ({e1}) ON CONFLICT (a) DO NOTHING", "comment_on": "COMMENT ON TABLE t IS 'x'",
    "create_table_default": "CREATE TABLE t (a INT DEFAULT 0, b TEXT DEFAULT 'x' NOT NULL, c BOOLEAN)", "describe": "DESCRIBE t", "use": "USE db", "set_var": "SET x = 1", "begin_commit": "BEGIN", "grant": "GRANT SELECT ON t TO r",
}


def render_e(t):
    if t["k"] == "atom":
        return ATOMS[t["v"]]
    return E[t["f"]].format(*[render_e(a) for a in t["args"]])


def render(t):
    if t["k"] == "stmt":
        return S[t["f"]].format(e1=render_e(t["e1"]), e2=render_e(t["e2"]))
    return "SELECT " + render_e(t)


def shape(t):
    """Coarse structural key of a term: the forms it uses, outermost first."""
    if t["k"] == "atom":
        return t["v"]
    if t["k"] == "stmt":
        inner = sorted({shape(t["e1"]), shape(t["e2"])} - set(ATOMS))
        return t["f"] + ("[" + ",".join(inner) + "]" if inner else "")
    args = [shape(a) for a in t["args"]]
    return t["f"] + "(" + ",".join(a if a not in ATOMS else "_" for a in args) + ")"


def h(*xs):
    return zlib.crc32(json.dumps(xs, sort_keys=True).encode())


# ------------------------------------------------------------------ time formats
TIME_FUNCS = ["TimeToStr", "StrToTime", "StrToDate", "StrToUnix", "UnixToStr", "TsOrDsToDate"]


def time_tables():
    """TIME_MAPPING / INVERSE_TIME_MAPPING of every dialect of the working tree, strings as character lists (for TimeFmt.tla)."""
    from sqlglot.dialects import DIALECT_MODULE_NAMES
    from sqlglot.dialects.dialect import Dialect

    out = []
    for name in [""] + sorted(DIALECT_MODULE_NAMES):
        d = Dialect.get_or_raise(name or None)
        fwd, inv = d.TIME_MAPPING or {}, d.INVERSE_TIME_MAPPING or {}
        if fwd:
            out.append({"name": name or "base", "fwd": [[list(k), list(v)] for k, v in sorted(fwd.items())], "inv": [[list(k), list(v)] for k, v in sorted(inv.items())]})
    return out


def parse_timefmt(stdout):
    """The <<"T", dialect, string, forward image, Deviates, NonIdempotent>> tuples TimeFmt.tla prints (TLC wraps long tuples)."""
    import re

    rows, bad = {}, 0
    for m in re.finditer(r'<<\s*"T",', stdout):
        j = m.start()
        depth, k = 0, j
        while k < len(stdout):
            if stdout.startswith("<<", k):
                depth += 1
                k += 2
            elif stdout.startswith(">>", k):
                depth -= 1
                k += 2
                if depth == 0:
                    break
            else:
                k += 1
        t = re.sub(r"\s+", " ", stdout[j:k])
        mm = re.match(r'<<\s*"T", "([^"]*)", (<<.*?>>|<<\s*>>), (<<.*?>>|<<\s*>>), (TRUE|FALSE), (TRUE|FALSE)\s*>>$', t)
        if not mm:
            bad += 1
            continue
        unesc = lambda x: re.sub(r"\\(.)", r"\1", x)  # noqa: E731 - TLC escapes quotes and backslashes inside strings
        s_ = "".join(unesc(x) for x in re.findall(r'"((?:[^"\\]|\\.)*)"', mm.group(2)))
        f_ = "".join(unesc(x) for x in re.findall(r'"((?:[^"\\]|\\.)*)"', mm.group(3)))
        rows[(mm.group(1), s_)] = (f_, mm.group(4) == "TRUE", mm.group(5) == "TRUE")
    return rows, bad


def time_inputs(dialect, frac, seed, extra_fmts=()):
    """Native time-format texts of a dialect: every key of its TIME_MAPPING alone and in pairs, under each format function."""
    from sqlglot import exp
    from sqlglot.dialects.dialect import Dialect

    d = Dialect.get_or_raise(dialect or None)
    inv = d.INVERSE_TIME_MAPPING or {}
    py = sorted(set((d.TIME_MAPPING or {}).values()) | {"%Y", "%m", "%d", "%H", "%M", "%S", "%f", "%j", "%y", "%b", "%a", "%p", "%I", "%Z", "%z", "%W", "%U", "%u", "%A", "%B", "%e", "%-d", "%-m"})
    fmts = list(py)
    for i, x in enumerate(py):
        for y in py:
            if h(dialect, x, y, seed) % frac == 0:
                fmts.append(f"{x}-{y}")
                fmts.append(f"{x} {y}:%M")
                fmts.append(f"{x}{y}")  # adjacent tokens: the tries' longest match decides where one ends
    fmts += [f for f in extra_fmts if f not in fmts]
    out = []
    for fn in TIME_FUNCS:
        cls = getattr(exp, fn)
        for f in fmts:
            try:
                node = cls(this=exp.column("x"), format=exp.Literal.string(f))
                sql = exp.select(node).from_("t").sql(dialect=dialect or None)
            except Exception:  # noqa: BLE001 - the dialect cannot express this function
                continue
            out.append({"sql": sql, "fmt": f, "fn": fn})
    return out


def comment_variants(sql, dialect, kmax=40):
    """The statement with a block comment inserted after its k-th token (every k), and a trailing line comment."""
    from sqlglot.dialects.dialect import Dialect

    try:
        toks = Dialect.get_or_raise(dialect or None).tokenize(sql)
    except Exception:  # noqa: BLE001
        return []
    out = []
    for k, t in enumerate(toks[:kmax]):
        out.append(sql[: t.end + 1] + f" /* c{k} */ " + sql[t.end + 1 :])
    out.append(sql + " -- tail")
    return out
