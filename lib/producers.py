"""Producers of real trees for the code -> spec direction of C08 (and reused by C09/C12):
parse_one in every dialect, each optimizer rule, builders, transform, simplify — with hash()/==
calls interleaved so that caches are populated when the producer mutates the tree."""
from __future__ import annotations

import inspect
import json
import os
import random

ROOT = os.path.dirname(os.path.dirname(os.path.abspath(__file__)))

SCHEMA = {
    "x": {"a": "INT", "b": "INT"},
    "y": {"b": "INT", "c": "INT"},
    "z": {"b": "INT", "c": "INT"},
    "w": {"d": "TEXT", "e": "TEXT"},
    "temporal": {"d": "DATE", "t": "DATETIME"},
    "t_bool": {"a": "BOOLEAN", "b": "BOOLEAN"},
}

_cache = {}


def corpus_identity():
    if "id" not in _cache:
        with open(os.path.join(ROOT, "corpus", "identity.sql"), encoding="utf-8") as f:
            _cache["id"] = [l.rstrip("\n") for l in f if l.strip()]
    return _cache["id"]


def corpus_optimizer():
    if "opt" not in _cache:
        with open(os.path.join(ROOT, "corpus", "optimizer.jsonl"), encoding="utf-8") as f:
            rows = [json.loads(l) for l in f]
        _cache["opt"] = [r for r in rows if r["file"] not in ("annotate_functions", "qualify_columns_ddl")]
    return _cache["opt"]


def corpus_probes():
    if "probes" not in _cache:
        with open(os.path.join(ROOT, "corpus", "dialect_probes.jsonl"), encoding="utf-8") as f:
            _cache["probes"] = [json.loads(l) for l in f]
    return _cache["probes"]


def all_dialects():
    from sqlglot.dialects import DIALECT_MODULE_NAMES

    return [""] + sorted(DIALECT_MODULE_NAMES)


BUILDER_SCRIPTS = [
    ["select:a", "from:t", "where:a = 1", "where:b > 2"],
    ["select:a,b", "from:t", "join:u ON t.a = u.a", "group_by:a", "having:COUNT(*) > 1", "order_by:a", "limit:3"],
    ["select:x", "from:t", "with:c|SELECT 1 AS x", "distinct", "offset:2"],
    ["select:a", "from:t", "where:a IN (SELECT a FROM u)", "select:b", "order_by:b DESC"],
    ["select:*", "from:t", "lateral:EXPLODE(xs) AS e", "where:e > 0"],
    ["select:a", "from:t", "union:SELECT a FROM u", "limit:1"],
    ["select:a + 1 AS c", "from:t", "qualify:ROW_NUMBER() OVER (ORDER BY a) = 1", "window:w AS (PARTITION BY a)"],
    ["cond:a = 1", "and:b = 2", "or:c = 3", "not", "and:d IS NULL"],
    ["cond:a", "and:b", "and:c OR d", "not", "or:e"],
    ["select:a", "from:t", "subquery:s", "select2:s.a", "where:s.a > 1"],
    ["case:a = 1|'x'", "when:a = 2|'y'", "else:'z'"],
    ["select:a", "from:t", "hint:BROADCAST(t)", "sort_by:a", "cluster_by:b"],
]


def plan(rng: random.Random, budget: int):
    """A deterministic list of work items of size ~budget (the seed only picks the slice)."""
    ident = corpus_identity()
    opt = corpus_optimizer()
    dialects = all_dialects()
    work = []
    n_parse = budget * 3 // 10
    n_rule = budget * 4 // 10
    n_misc = budget - n_parse - n_rule
    for _ in range(n_parse):
        work.append({"kind": "parse", "sql": rng.choice(ident), "dialect": rng.choice(dialects), "r": rng.random()})
    for pr in corpus_probes():
        work.append({"kind": "parse", "sql": pr["sql"], "dialect": pr["dialect"], "r": rng.random()})
    for _ in range(n_rule):
        o = rng.choice(opt)
        work.append(
            {
                "kind": "rule",
                "sql": o["sql"],
                "dialect": o["dialect"] or "",
                "rule": rng.randrange(14),
                "prefix": rng.random() < 0.5,
                "r": rng.random(),
            }
        )
    for i in range(n_misc):
        k = i % 4
        if k == 0:
            work.append({"kind": "builder", "script": rng.randrange(len(BUILDER_SCRIPTS)), "copy": rng.random() < 0.5, "hash_at": rng.randrange(5), "r": rng.random()})
        elif k == 1:
            work.append({"kind": "transform", "sql": rng.choice(ident), "dialect": "", "f": rng.randrange(4), "r": rng.random()})
        elif k == 2:
            o = rng.choice([x for x in opt if x["file"] in ("simplify", "normalize", "canonicalize")])
            work.append({"kind": "simplify", "sql": o["sql"], "dialect": o["dialect"] or "", "r": rng.random()})
        else:
            work.append({"kind": "edit", "sql": rng.choice(ident), "dialect": "", "r": rng.random(), "n": rng.randrange(1, 6)})
    return work


def _touch(tree, r):
    """Interleaved cache population: hash the root, or a random inner node, or compare with a copy."""
    nodes = list(tree.walk())
    if not nodes:
        return False
    x = nodes[int(r * 7919) % len(nodes)]
    mode = int(r * 100) % 3
    if mode == 0:
        hash(tree)
    elif mode == 1:
        hash(x)
    else:
        _ = tree == tree.copy()
    return True


def _project(tree, meta, extra_roots=()):
    from lib.astproj import project_tree

    nodes, _ = project_tree(tree, extra_roots)
    meta.setdefault("stage", "output")
    meta["wid"] = meta["work"].get("wid", 0)
    return {"nodes": nodes, "meta": meta}


def _project_input(tree, w):
    """The tree as the producer receives it (so that a defect of the parser is not blamed on the producer)."""
    return _project(tree, {"producer": "parse_one", "sql": w["sql"], "dialect": w.get("dialect", ""), "hashed": False, "work": w, "stage": "input"})


def _transform_fn(f):
    from sqlglot import exp

    if f == 0:
        return lambda n: n
    if f == 1:
        return lambda n: exp.column("zz") if isinstance(n, exp.Column) else n
    if f == 2:
        return lambda n: exp.func("F", n.copy()) if isinstance(n, exp.Literal) else n
    return lambda n: None if isinstance(n, exp.Order) else n


def _run_builder(w):
    import sqlglot
    from sqlglot import exp

    script = BUILDER_SCRIPTS[w["script"]]
    copy = w["copy"]
    cur = None
    hashed = False
    keep = []
    for i, step in enumerate(script):
        op, _, arg = step.partition(":")
        if i == w["hash_at"] and cur is not None:
            hash(cur)
            hashed = True
        if op == "select":
            cur = exp.select(*arg.split(",")) if cur is None else cur.select(*arg.split(","), copy=copy)
        elif op == "select2":
            cur = cur.select(arg, copy=copy) if hasattr(cur, "select") else cur
        elif op == "from":
            cur = cur.from_(arg, copy=copy)
        elif op == "where":
            cur = cur.where(arg, copy=copy)
        elif op == "join":
            t, _, on = arg.partition(" ON ")
            cur = cur.join(t, on=on, copy=copy)
        elif op == "group_by":
            cur = cur.group_by(arg, copy=copy)
        elif op == "having":
            cur = cur.having(arg, copy=copy)
        elif op == "order_by":
            cur = cur.order_by(arg, copy=copy)
        elif op == "sort_by":
            cur = cur.sort_by(arg, copy=copy)
        elif op == "cluster_by":
            cur = cur.cluster_by(arg, copy=copy)
        elif op == "limit":
            cur = cur.limit(int(arg), copy=copy)
        elif op == "offset":
            cur = cur.offset(int(arg), copy=copy)
        elif op == "distinct":
            cur = cur.distinct(copy=copy)
        elif op == "with":
            a, _, q = arg.partition("|")
            cur = cur.with_(a, as_=q, copy=copy)
        elif op == "lateral":
            cur = cur.lateral(arg, copy=copy)
        elif op == "union":
            cur = cur.union(arg, copy=copy)
        elif op == "qualify":
            cur = cur.qualify(arg, copy=copy)
        elif op == "window":
            cur = cur.window(arg, copy=copy)
        elif op == "hint":
            cur = cur.hint(arg, copy=copy)
        elif op == "subquery":
            cur = exp.select("*").from_(cur.subquery(arg, copy=copy), copy=copy)
        elif op == "cond":
            cur = exp.condition(arg)
        elif op == "and":
            cur = cur.and_(arg, copy=copy)
        elif op == "or":
            cur = cur.or_(arg, copy=copy)
        elif op == "not":
            cur = cur.not_(copy=copy)
        elif op == "case":
            c, _, v = arg.partition("|")
            cur = exp.case().when(c, v)
        elif op == "when":
            c, _, v = arg.partition("|")
            cur = cur.when(c, v, copy=copy)
        elif op == "else":
            cur = cur.else_(arg, copy=copy)
        keep.append(cur)
    return cur, hashed


def _random_edits(tree, rng, n):
    """Public-API edits on a parsed tree, honouring the contract (values are detached copies)."""
    from sqlglot import exp

    for _ in range(n):
        nodes = [x for x in tree.walk() if x.parent is not None]
        if not nodes:
            return tree
        x = rng.choice(nodes)
        k = rng.randrange(7)
        if rng.random() < 0.5:
            hash(rng.choice(nodes))
        try:
            if k == 0:
                x.replace(exp.column("r"))
            elif k == 1 and x.parent.arg_types.get(x.arg_key) is False and not isinstance(x.parent.args.get(x.arg_key), list):
                x.pop()
            elif k == 2 and isinstance(x.parent.args.get(x.arg_key), list):
                x.pop()
            elif k == 3 and isinstance(x.parent.args.get(x.arg_key), list):
                x.parent.append(x.arg_key, x.copy())
            elif k == 4:
                x.replace(exp.paren(x.copy()))
            elif k == 5 and isinstance(x.parent.args.get(x.arg_key), list):
                x.parent.set(x.arg_key, exp.column("ins"), index=x.index, overwrite=False)
            elif k == 6:
                x.set("this", x.args.get("this").copy() if hasattr(x.args.get("this"), "copy") and not isinstance(x.args.get("this"), (list, str)) else x.args.get("this"))
        except Exception:
            pass
    return tree


def run_chunk(work, seed):
    import sqlglot
    from sqlglot import exp
    from sqlglot.optimizer.optimizer import RULES
    from sqlglot.schema import ensure_schema

    out = []
    for w in work:
        kind = w["kind"]
        try:
            if kind == "parse":
                try:
                    tree = sqlglot.parse_one(w["sql"], dialect=w["dialect"] or None)
                except sqlglot.errors.SqlglotError:
                    continue
                hashed = False
                if w["r"] < 0.3:
                    hashed = _touch(tree, w["r"])
                out.append(_project(tree, {"producer": "parse_one", "sql": w["sql"], "dialect": w["dialect"], "hashed": hashed, "work": w}))
            elif kind == "rule":
                d = w["dialect"] or None
                try:
                    tree = sqlglot.parse_one(w["sql"], dialect=d)
                except sqlglot.errors.SqlglotError:
                    continue
                out.append(_project_input(tree, w))
                schema = ensure_schema(SCHEMA, dialect=d)
                possible = {"db": None, "catalog": None, "schema": schema, "dialect": d, "sql": None, "isolate_tables": True, "quote_identifiers": False}
                rules = list(RULES[: w["rule"] + 1]) if w["prefix"] else ([RULES[0], RULES[w["rule"]]] if w["rule"] else [RULES[0]])
                name = "?"
                hashed = False
                try:
                    for i, rule in enumerate(rules):
                        if i == len(rules) - 1:
                            hashed = _touch(tree, w["r"])
                        params = inspect.getfullargspec(rule).args
                        tree = rule(tree, **{p: possible[p] for p in params if p in possible})
                        name = rule.__name__
                except sqlglot.errors.SqlglotError:
                    continue
                except Exception:
                    continue  # crashes of optimizer rules on fixture inputs are not C08's subject
                out.append(_project(tree, {"producer": name, "sql": w["sql"], "dialect": w["dialect"], "hashed": hashed, "work": w}))
            elif kind == "builder":
                tree, hashed = _run_builder(w)
                out.append(_project(tree, {"producer": "builder", "sql": " | ".join(BUILDER_SCRIPTS[w["script"]]), "dialect": "", "hashed": hashed, "shape": f"script{w['script']}", "work": w}))
            elif kind == "transform":
                try:
                    tree = sqlglot.parse_one(w["sql"])
                except sqlglot.errors.SqlglotError:
                    continue
                out.append(_project_input(tree, w))
                hashed = _touch(tree, w["r"])
                res = tree.transform(_transform_fn(w["f"]), copy=w["r"] < 0.5)
                if res is None:
                    continue
                out.append(_project(res, {"producer": "transform", "sql": w["sql"], "dialect": "", "hashed": hashed, "shape": f"f{w['f']}", "work": w}))
            elif kind == "simplify":
                from sqlglot.optimizer.simplify import simplify
                from sqlglot.optimizer.normalize import normalize

                d = w["dialect"] or None
                try:
                    tree = sqlglot.parse_one(w["sql"], dialect=d)
                except sqlglot.errors.SqlglotError:
                    continue
                out.append(_project_input(tree, w))
                hashed = _touch(tree, w["r"])
                try:
                    res = simplify(tree, dialect=d) if w["r"] < 0.6 else normalize(tree, dnf=w["r"] > 0.8)
                except sqlglot.errors.SqlglotError:
                    continue
                out.append(_project(res, {"producer": "simplify" if w["r"] < 0.6 else "normalize", "sql": w["sql"], "dialect": w["dialect"], "hashed": hashed, "work": w}))
            elif kind == "edit":
                try:
                    tree = sqlglot.parse_one(w["sql"])
                except sqlglot.errors.SqlglotError:
                    continue
                out.append(_project_input(tree, w))
                rng = random.Random(int(w["r"] * 1e9))
                tree = _random_edits(tree, rng, w["n"])
                out.append(_project(tree, {"producer": "edit", "sql": w["sql"], "dialect": "", "hashed": True, "work": w}))
        except RecursionError:
            continue
    return out
