------------------------------- MODULE Mutate -------------------------------
(* Generator specification for the inputs of C05 / C14: token-level mutations   *)
(* of valid statements.  A mutation is (base statement, operation, position,    *)
(* token from the pool); the driver applies it to the token list of the base    *)
(* statement.  "pump" repeats a sub-derivation k times (nesting, long lists,    *)
(* operator chains) for the work-growth clause of C05.                          *)
EXTENDS Naturals, Sequences, FiniteSets, TLC, Json, Randomization

CONSTANTS NBase,      \* number of base statements in the frozen corpus slice
          NPool,      \* size of the token pool
          MaxPos,     \* positions considered
          K, Mode     \* "single": all single mutations of a sample of bases; "double": sampled double mutations; "script": multi-statement scripts

Ops == {"delete", "insert", "replace", "swap", "dup", "truncate"}
Single == [base : 1..NBase, op : Ops, pos : 1..MaxPos, tok : 1..NPool]
One == [op : Ops, pos : 1..MaxPos, tok : 1..NPool]
\* scripts: three statements separated by ';', one of them mutated
Scripts == [a : 1..NBase, b : 1..NBase, c : 1..NBase, which : 1..3, m : One]

\* complete sweep: soft keywords (words that are also legal identifiers) inserted at / replacing every early position of the first bases
SweepToks == {15, 21, 25, 35, 36, 37, 10, 14}      \* LIMIT AS END WITH INTERVAL OVER JOIN ORDER (indices into the driver's token pool)
Sweep == [base : 1..K, op : {"insert", "replace"}, pos : 1..10, tok : SweepToks]

Pool == CASE Mode = "sweep" -> Sweep [] Mode = "single" -> RandomSubset(K, Single)
          [] Mode = "double" -> { [base |-> x.base, m1 |-> [op |-> x.op, pos |-> x.pos, tok |-> x.tok], m2 |-> y] : x \in RandomSubset(K, Single), y \in RandomSubset(3, One) }
          [] Mode = "script" -> RandomSubset(K, Scripts)
VARIABLE m
Init == m \in Pool
Next == UNCHANGED m
Emit == PrintT(ToJson([m |-> m]))
=============================================================================
