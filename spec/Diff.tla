-------------------------------- MODULE Diff --------------------------------
(***************************************************************************)
(* The bookkeeping of sqlglot.diff.ChangeDistiller: two pools of unmatched *)
(* nodes, a matching set that consumes them (leaf matching first, then     *)
(* inner nodes, after the caller's pre-matchings), and the edit script     *)
(* generated from what is left.  The similarity heuristics are abstracted  *)
(* to nondeterminism: any same-type pair still in the pools may be matched.*)
(* Invariants: the matching is a partial bijection between same-type nodes *)
(* and the script accounts for every node exactly once.                    *)
(***************************************************************************)
EXTENDS Naturals, Sequences, FiniteSets, TLC

CONSTANTS NS, NT,        \* number of (non-identifier) nodes of source and target
          Types,         \* node types
          Variant        \* "code" | "no_pool_check" | "insert_from_source"

S == 1..NS
T == 1..NT
VARIABLES stype, ttype,   \* node -> type
          uS, uT,         \* unmatched pools
          M,              \* matching set: pairs <<s, t>>
          script, phase

vars == <<stype, ttype, uS, uT, M, script, phase>>

Init == /\ stype \in [S -> Types] /\ ttype \in [T -> Types]
        /\ uS = S /\ uT = T /\ M = {} /\ script = {} /\ phase = "pre"

\* the caller's matchings: removed from the pools up front
PreMatch(s, t) == /\ phase = "pre" /\ s \in uS /\ t \in uT
                  /\ M' = M \cup {<<s, t>>} /\ uS' = uS \ {s} /\ uT' = uT \ {t}
                  /\ UNCHANGED <<stype, ttype, script, phase>>
StartMatching == phase = "pre" /\ phase' = "match" /\ UNCHANGED <<stype, ttype, uS, uT, M, script>>
\* leaf / inner matching: only nodes still in both pools, same type
Match(s, t) == /\ phase = "match" /\ stype[s] = ttype[t]
               /\ (Variant = "no_pool_check" \/ (s \in uS /\ t \in uT))
               /\ M' = M \cup {<<s, t>>} /\ uS' = uS \ {s} /\ uT' = uT \ {t}
               /\ UNCHANGED <<stype, ttype, script, phase>>
Generate == /\ phase = "match" /\ phase' = "done"
            /\ script' = { <<"remove", s, 0>> : s \in uS }
                         \cup { <<"insert", 0, t>> : t \in (IF Variant = "insert_from_source" THEN uS \cap T ELSE uT) }
                         \cup { <<"keep_or_update", p[1], p[2]>> : p \in M }
            /\ UNCHANGED <<stype, ttype, uS, uT, M>>
Next == (\E s \in S, t \in T : PreMatch(s, t) \/ Match(s, t)) \/ StartMatching \/ Generate \/ (phase = "done" /\ UNCHANGED vars)

Bijection == \A p, q \in M : (p[1] = q[1] <=> p[2] = q[2])
\* pre-matchings are the caller's responsibility; everything the algorithm itself pairs has equal types
Partition == /\ uS \cap { p[1] : p \in M } = {} /\ uS \cup { p[1] : p \in M } = S
             /\ uT \cap { p[2] : p \in M } = {} /\ uT \cup { p[2] : p \in M } = T
SrcCount(s) == Cardinality({ e \in script : e[2] = s })
TgtCount(t) == Cardinality({ e \in script : e[3] = t })
Accounting == phase = "done" => (\A s \in S : SrcCount(s) = 1) /\ (\A t \in T : TgtCount(t) = 1)
=============================================================================
