------------------------------ MODULE Grammar ------------------------------
(***************************************************************************)
(* The core grammar of C01 / C07 as a term algebra, and the round-trip     *)
(* pipeline as a state machine.                                            *)
(*                                                                         *)
(* Part 1 - pipeline.  A text s is parsed in dialect d (or rejected: then  *)
(* it is outside the property's domain), generated (s1), parsed again,     *)
(* generated (s2).  The clauses are over the recorded stages (RoundTrip    *)
(* acceptor): Reparses, Fixpoint (s2 = s1), SameTree (base dialect),       *)
(* FormatKept (time-format literals of the base dialect).                  *)
(*                                                                         *)
(* Part 2 - terms.  Expressions: a form applied to atoms or to form        *)
(* applications (the precedence ladder OR < AND < NOT < comparison <       *)
(* additive < multiplicative < unary, with and without explicit            *)
(* parentheses, is exercised by nesting every binary form under every      *)
(* other).  Statements: query forms with expression slots, set-operation   *)
(* chains with modifiers at every operand, CTEs, derived tables, joins,    *)
(* windows, a DML / DDL subset.  TLC enumerates depth 1 and draws deeper   *)
(* terms (RandomSubset); the driver renders terms as base-dialect SQL.     *)
(***************************************************************************)
EXTENDS Naturals, Sequences, FiniteSets, TLC, Json, Randomization

CONSTANTS Focus, K

(* ------------------------------ pipeline ------------------------------ *)
Stages == <<"text", "tree0", "s1", "tree1", "s2">>
\* what a recorded pipeline must satisfy (c is a record of observations, see RoundTrip.tla)
Reparses(c) == c.parsed0 => c.parsed1
Fixpoint(c) == (c.parsed0 /\ c.parsed1) => c.s2 = c.s1
SameTree(c) == (c.base /\ c.parsed0 /\ c.parsed1) => c.tree_eq
FormatKept(c) == (c.base /\ c.parsed0) => c.fmt_kept

(* ------------------------------ expressions ------------------------------ *)
Atoms == {"a", "t.b", "qid", "int", "float", "exp", "str", "str_quote", "str_nl", "null", "true", "date", "ts", "iv_day", "iv_ym", "iv_ds", "star_count", "param"}
Unary == {"neg", "not", "paren", "isnull", "isnotnull", "istrue", "cast_int", "cast_dec", "cast_text", "try_cast", "upper", "abs", "exists", "sum", "count_distinct", "win_sum", "win_rank",
          "win_frame", "extract", "dcolon", "bitnot", "scalar_sub", "any_sub", "in_sub", "not_in_list", "array_lit", "struct_dot", "lower_trim", "filter_agg", "within_group"}
Binary == {"or", "and", "=", "<>", "<", "<=", ">", ">=", "+", "-", "*", "/", "%", "||", "like", "not_like", "ilike", "in2", "is_distinct", "div", "&", "|", "^", "<<", "coalesce", "nullif",
           "mod", "json_arrow", "index", "at_tz", "concat", "pow", "like_escape", "is_not_distinct", "xor", "cmp_any", "greatest"}
Ternary == {"between", "not_between", "case", "case_operand", "if", "substring", "case2", "between_sym"}
Cols == {"a", "t.b", "qid"}
E0 == {[k |-> "atom", v |-> x] : x \in Atoms}
E1u == {[k |-> "app", f |-> f, args |-> <<x>>] : f \in Unary, x \in E0}
E1b == {[k |-> "app", f |-> f, args |-> <<x, y>>] : f \in Binary, x \in E0, y \in E0}
E1t == {[k |-> "app", f |-> f, args |-> <<x, y, z>>] : f \in Ternary, x \in {e \in E0 : e.v \in {"a", "int", "str", "date"}}, y \in E0, z \in {e \in E0 : e.v \in {"t.b", "int", "str_quote", "null", "iv_day"}}}
\* the ladder: every binary / unary form directly under every binary form, on either side, bare and parenthesised
Ladder == LET small == {[k |-> "app", f |-> f, args |-> <<[k |-> "atom", v |-> "a"], [k |-> "atom", v |-> "int"]>>] : f \in Binary}
                       \cup {[k |-> "app", f |-> f, args |-> <<[k |-> "atom", v |-> "a"]>>] : f \in {"neg", "not", "paren", "isnull", "cast_int", "dcolon", "bitnot", "exists"}}
              wrap(e) == [k |-> "app", f |-> "paren", args |-> <<e>>]
          IN {[k |-> "app", f |-> f, args |-> <<x, [k |-> "atom", v |-> "t.b"]>>] : f \in Binary, x \in small \cup {wrap(e) : e \in small}}
             \cup {[k |-> "app", f |-> f, args |-> <<[k |-> "atom", v |-> "t.b"], x>>] : f \in Binary, x \in small \cup {wrap(e) : e \in small}}
             \cup {[k |-> "app", f |-> f, args |-> <<x>>] : f \in {"neg", "not", "isnull", "cast_int", "dcolon", "bitnot", "istrue"}, x \in small \cup {wrap(e) : e \in small}}
E1 == E1u \cup E1b
Deep == LET xs == RandomSubset(K, E1 \cup Ladder)
            ys == RandomSubset(K, E0 \cup E1)
        IN {[k |-> "app", f |-> f, args |-> <<x, y>>] : f \in Binary, x \in xs, y \in ys} \cup {[k |-> "app", f |-> f, args |-> <<x>>] : f \in Unary, x \in xs}
           \cup {[k |-> "app", f |-> f, args |-> <<x, y, z>>] : f \in Ternary, x \in RandomSubset(3, xs), y \in RandomSubset(3, ys), z \in RandomSubset(3, ys)}

(* ------------------------------ statements ------------------------------ *)
\* every statement form has expression slots e1, e2 and (for some) query slots
QForms == {"select", "select_where", "select_distinct", "group_having", "order_limit", "order_nulls", "join_inner", "join_left", "join_cross", "join_using", "join_full_where", "derived", "cte", "cte2", "cte_recursive",
           "union", "union_all", "intersect", "except", "chain3", "chain3_mod_first", "chain3_mod_mid", "chain3_mod_last", "chain_paren", "union_order_limit", "window_named", "window_frame", "qualify",
           "lateral", "values", "select_star_except", "subquery_where", "limit_offset", "distinct_on", "tablesample", "for_update", "select_into_alias", "nested_paren_query", "union_in_cte", "exists_where"}
DForms == {"insert_select", "insert_values", "insert_cols", "update", "update_from", "delete", "delete_using", "merge", "create_table", "create_table_constraints", "create_table_as", "create_view", "create_index",
           "drop_table", "drop_view", "alter_add", "alter_drop", "alter_rename", "truncate", "create_schema", "create_temp", "create_if_not_exists", "insert_on_conflict", "comment_on", "create_table_default", "describe", "use", "set_var", "begin_commit", "grant"}
SlotE == RandomSubset(K, E0 \cup E1 \cup Ladder)
Stmts == {[k |-> "stmt", f |-> f, e1 |-> x, e2 |-> y] : f \in QForms \cup DForms, x \in RandomSubset(3, SlotE), y \in RandomSubset(2, SlotE)}
StmtsAtoms == {[k |-> "stmt", f |-> f, e1 |-> [k |-> "atom", v |-> "a"], e2 |-> [k |-> "app", f |-> "=", args |-> <<[k |-> "atom", v |-> "t.b"], [k |-> "atom", v |-> "int"]>>]] : f \in QForms \cup DForms}

(* ------------------------------ generator options (C07) ------------------------------ *)
\* the option lattice of Generator; Erased(o) = the tree attributes an option is allowed to change
Options == [pretty : BOOLEAN, pad : 0..4, indent : 0..4, width : {1, 20, 80}, leading_comma : BOOLEAN, comments : BOOLEAN,
            identify : {"false", "true", "safe"}, normalize_functions : {"upper", "lower", "false"}]
Erased(o) == (IF o.comments THEN {} ELSE {"comments"}) \cup (IF o.identify = "false" THEN {} ELSE {"quoted"}) \cup (IF o.normalize_functions = "upper" THEN {} ELSE {"function_case"})
\* options that cannot matter when pretty is off are collapsed (pad, indent, width, leading_comma only act in pretty mode)
Canonical(o) == o.pretty \/ (o.pad = 2 /\ o.indent = 2 /\ o.width = 80 /\ ~o.leading_comma)
OptionPool == {o \in Options : Canonical(o)}

Pool == CASE Focus = "atoms" -> E0
          [] Focus = "options" -> {[k |-> "opt", o |-> o, erased |-> Erased(o)] : o \in OptionPool}
          [] Focus = "unary" -> E1u
          [] Focus = "binary" -> E1b
          [] Focus = "ternary" -> E1t
          [] Focus = "ladder" -> Ladder
          [] Focus = "deep" -> Deep
          [] Focus = "stmt_plain" -> StmtsAtoms
          [] OTHER -> Stmts
VARIABLE t
Init == t \in Pool
Next == UNCHANGED t
Emit == PrintT(ToJson([t |-> t]))
=============================================================================
