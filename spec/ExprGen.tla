------------------------------ MODULE ExprGen ------------------------------
(* Generator specification: the well-typed scalar/boolean expression terms   *)
(* the simplifier is exercised on.  Depth 0 and 1 are enumerated completely, *)
(* depth 2/3 terms are built from pseudo-random subsets (TLC -seed makes the  *)
(* choice reproducible).  Every initial state is one expression.             *)
EXTENDS Integers, Sequences, FiniteSets, TLC, Json, Randomization

CONSTANTS Level,      \* 1: all depth-1 booleans; 2: connectors over sampled depth-1; 3: one more level
          K           \* sample size per operand position

IntCols  == { <<"col", "a">>, <<"col", "b">>, <<"col", "m">> }      \* m is declared NOT NULL
BoolCols == { <<"col", "p">>, <<"col", "q">>, <<"col", "r">> }      \* r is declared NOT NULL
IntLeaf  == IntCols \cup { <<"int", 0>>, <<"int", 1>>, <<"int", 2>>, <<"null">> }
BoolLeaf == BoolCols \cup { <<"bool", 1>>, <<"bool", 0>>, <<"null">> }
CmpOps   == {"eq", "neq", "lt", "lte", "gt", "gte"}

Int1 == IntLeaf
        \cup { <<op, x, y>> : op \in {"add", "sub", "mul"}, x \in IntCols \cup {<<"int", 1>>}, y \in IntLeaf }
        \cup { <<"neg", x>> : x \in IntCols \cup {<<"int", 1>>} }
        \cup { <<"coalesce", <<x, y>>>> : x \in IntCols \cup {<<"null">>}, y \in IntLeaf }
Bool1 == BoolLeaf
         \cup { <<op, x, y>> : op \in CmpOps, x \in IntLeaf, y \in IntLeaf }
         \cup { <<op, x, y>> : op \in {"and", "or"}, x \in BoolLeaf, y \in BoolLeaf }
         \cup { <<"not", x>> : x \in BoolLeaf }
         \cup { <<"isnull", x>> : x \in IntLeaf \cup BoolCols }
         \cup { <<"not", <<"isnull", x>>>> : x \in IntCols \cup BoolCols }
         \cup { <<"between", x, lo, hi>> : x \in IntCols, lo \in {<<"int", 0>>, <<"int", 1>>, <<"col", "b">>, <<"null">>}, hi \in {<<"int", 1>>, <<"int", 2>>, <<"null">>} }
         \cup { <<"in", x, <<v, w>>>> : x \in IntCols, v \in {<<"int", 0>>, <<"int", 1>>}, w \in {<<"int", 2>>, <<"null">>, <<"col", "b">>} }
         \cup { <<"eq", <<"coalesce", <<x, <<"int", 1>>>>>>, <<"int", v>>>> : x \in IntCols, v \in 0..2 }
         \cup { <<op, <<"coalesce", <<x, y, <<"int", 1>>>>>>, <<"int", v>>>> : op \in {"eq", "neq", "lt"}, x \in {<<"col", "a">>, <<"col", "m">>}, y \in {<<"col", "b">>, <<"null">>}, v \in 1..2 }

S1 == RandomSubset(K, Bool1)
S1b == RandomSubset(K, Bool1)
Cmp2 == { <<op, x, <<"int", v>>>> : op \in CmpOps, x \in RandomSubset(6, Int1 \ IntLeaf), v \in 0..2 }
Bool2 == { <<op, x, y>> : op \in {"and", "or"}, x \in S1, y \in S1b }
         \cup { <<"not", <<"paren", x>>>> : x \in S1 }
         \cup Cmp2
         \cup { <<"case", << <<c, v>>, <<d, w>> >>, e>> : c \in RandomSubset(4, Bool1), d \in RandomSubset(3, Bool1) \cup {<<"bool", 1>>},
                                                          v \in RandomSubset(2, BoolLeaf), w \in RandomSubset(2, BoolLeaf), e \in {<<"none">>, <<"col", "q">>} }
         \cup { <<"if", c, v, w>> : c \in RandomSubset(6, Bool1), v \in RandomSubset(3, BoolLeaf), w \in RandomSubset(3, BoolLeaf) }
T2 == RandomSubset(K, Bool2)
T2b == RandomSubset(K, Bool2)
Bool3 == { <<op, x, y>> : op \in {"and", "or"}, x \in T2, y \in S1 \cup T2b }
         \cup { <<"not", <<"paren", x>>>> : x \in T2 }

\* connector-only trees (what normalize distributes): atoms are boolean columns and one comparison
Atoms == BoolCols \cup { <<"eq", <<"col", "a">>, <<"int", 1>>>> }
C1 == Atoms \cup { <<op, x, y>> : op \in {"and", "or"}, x \in Atoms, y \in Atoms }
C2 == { <<op, x, y>> : op \in {"and", "or"}, x \in C1, y \in C1 }
C3 == { <<op, x, y>> : op \in {"and", "or"}, x \in RandomSubset(K, C2), y \in RandomSubset(K, C2) }
C3a == { <<op, x, y>> : op \in {"and", "or"}, x \in Atoms, y \in C2 }      \* complete: an atom against every depth-2 tree

Pool == CASE Level = 1 -> Bool1 [] Level = 2 -> Bool2 [] Level = 3 -> Bool3
          [] Level = 4 -> RandomSubset(40 * K, C2) [] Level = 5 -> C3 [] Level = 6 -> C3a

VARIABLE e
Init == e \in Pool
Next == UNCHANGED e
Emit == PrintT(ToJson([e |-> e]))
=============================================================================
