----------------------------- MODULE HistoryTrace -----------------------------
(* Acceptor for recorded histories (code -> spec): a case is one interpreter run  *)
(* under a given string-hash seed: the history History.tla emitted ([slot, inst]), *)
(* the answer digest of every step and the reference digest of every slot (the     *)
(* same call alone, fresh instances, hash seed 0, its own interpreter).            *)
(*   Deterministic       a call alone gives the reference under every hash seed     *)
(*   HistoryIndependent  a call on fresh instances gives the reference after any    *)
(*                       earlier calls                                              *)
(*   ReuseEqFresh        a call on a reused instance gives the reference            *)
EXTENDS Naturals, Sequences, FiniteSets, TLC, Json, IOUtils

VARIABLE i
Cases == JsonDeserialize(IOEnv.CASES)

Ref(c, s) == c.ref[CHOOSE k \in DOMAIN c.ref : c.ref[k].slot = s].digest
BadSteps(c) == { k \in DOMAIN c.hist : c.outs[k] # Ref(c, c.hist[k].slot) }
Min(S) == CHOOSE x \in S : \A y \in S : x <= y
Clause(c, k) == IF k = 1 /\ c.hist[k].inst = "fresh" THEN "Deterministic"
                ELSE IF c.hist[k].inst = "reused" THEN "ReuseEqFresh" ELSE "HistoryIndependent"
Judge(c) == IF Len(c.outs) # Len(c.hist) THEN <<"Crashed", 0>>
            ELSE IF BadSteps(c) = {} THEN <<"OK", 0>> ELSE <<Clause(c, Min(BadSteps(c))), Min(BadSteps(c))>>

Init == i \in 1..Len(Cases)
Next == UNCHANGED i
Verdict == PrintT(<<"V", Cases[i].id, Judge(Cases[i])[1], Judge(Cases[i])[2]>>)
=============================================================================
