------------------------------ MODULE History ------------------------------
(***************************************************************************)
(* One interpreter handling a sequence of calls (C15).  What can make the  *)
(* answer of a call depend on the past is state that survives a call:      *)
(*   - fields of a reused component instance (Tokenizer, Parser, Generator,*)
(*     Dialect, MappingSchema) that the call start does not reset,         *)
(*   - process-wide tables (dialect registry, generator dispatch cache)    *)
(*     when two different things share a key,                              *)
(* and, independently of the past, iteration over hash-ordered containers  *)
(* whose order reaches the output (the string-hash seed of the process).   *)
(*                                                                         *)
(* The model keeps, per reused instance, the set of fields dirtied by      *)
(* earlier calls, and per process the set of cache keys filled; a call's   *)
(* answer is "clean" iff nothing dirty is visible to it.  TLC enumerates   *)
(* every history over the call slots (fresh / reused instances) and checks *)
(* that answers are clean when every written field is in the reset list    *)
(* and cache keys are injective; each negative control removes one of      *)
(* these.  The same behaviours are emitted as the histories the driver     *)
(* replays in real interpreters; HistoryTrace judges the recorded answers. *)
(***************************************************************************)
EXTENDS Naturals, Sequences, FiniteSets, TLC, Json

CONSTANTS Slots,      \* call slots (the driver binds each slot to a real call)
          MaxLen,     \* length of a history
          Variant     \* "code" | "parser_counter_not_reset" | "generator_names_not_reset" | "cache_key_by_name"

Components == {"tokenizer", "parser", "generator", "dialect", "schema"}
\* fields a call writes on the instance it uses
Writes == [tokenizer |-> {"tokens", "pos"}, parser |-> {"tokens", "index", "errors", "pipe_cte_counter"},
           generator |-> {"unsupported_messages", "next_name"}, dialect |-> {}, schema |-> {"lookup_cache"}]
\* fields cleared (or semantically transparent caches revalidated) when a call starts
Resets == [tokenizer |-> {"tokens", "pos"},
           parser |-> IF Variant = "parser_counter_not_reset" THEN {"tokens", "index", "errors"} ELSE {"tokens", "index", "errors", "pipe_cte_counter"},
           generator |-> IF Variant = "generator_names_not_reset" THEN {"unsupported_messages"} ELSE {"unsupported_messages", "next_name"},
           dialect |-> {}, schema |-> {"lookup_cache"}]
\* the component a slot exercises (slots are spread over the components)
CompOf(s) == CASE s % 5 = 0 -> "tokenizer" [] s % 5 = 1 -> "parser" [] s % 5 = 2 -> "generator" [] s % 5 = 3 -> "dialect" [] OTHER -> "schema"
\* process-wide cache key of a slot: the class object (injective) or only its name (two slots may collide)
CacheKey(s) == IF Variant = "cache_key_by_name" THEN s % 2 ELSE s

VARIABLES hist,     \* sequence of [slot, inst]
          dirty,    \* per component: fields dirtied on the shared (reused) instance
          cache,    \* process-wide: cache key -> slot that filled it
          clean     \* per step: was the answer independent of the past
vars == <<hist, dirty, cache, clean>>

Init == hist = <<>> /\ dirty = [c \in Components |-> {}] /\ cache = <<>> /\ clean = <<>>

Lookup(k) == IF \E j \in DOMAIN cache : cache[j][1] = k THEN (CHOOSE j \in DOMAIN cache : cache[j][1] = k) ELSE 0
Call(s, inst) ==
    LET c == CompOf(s)
        visible == IF inst = "reused" THEN dirty[c] \ Resets[c] ELSE {}
        j == Lookup(CacheKey(s))
        stale == j # 0 /\ cache[j][2] # s                \* somebody else's table under my key
    IN /\ Len(hist) < MaxLen
       /\ hist' = Append(hist, [slot |-> s, inst |-> inst])
       /\ clean' = Append(clean, visible = {} /\ ~stale)
       /\ dirty' = IF inst = "reused" THEN [dirty EXCEPT ![c] = (@ \ Resets[c]) \cup Writes[c]] ELSE dirty
       /\ cache' = IF j = 0 THEN Append(cache, <<CacheKey(s), s>>) ELSE cache
Next == \E s \in Slots, inst \in {"fresh", "reused"} : Call(s, inst)
Spec == Init /\ [][Next]_vars

HistoryIndependent == \A k \in DOMAIN clean : clean[k]
\* a reused instance is indistinguishable from a fresh one at call start
ReuseEqFresh == \A c \in Components : dirty[c] \ Resets[c] = {}
Emit == PrintT(ToJson([hist |-> hist']))
=============================================================================
