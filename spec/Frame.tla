------------------------------- MODULE Frame -------------------------------
(***************************************************************************)
(* Non-mutating APIs as call frames over the node store of Ast.tla.        *)
(* A copying API is: Enter (deep copy of the argument), any number of      *)
(* mutations whose targets and values all live inside the frame, Exit.     *)
(* FrameOK: while a frame is open nothing outside it changes (cached hashes *)
(* may be filled, never wrong).  The variant "inplace" is what copy=False   *)
(* does (the frame is the argument itself) and must violate FrameOK.       *)
(* The second half (GInit/GNext) generates the call histories that the     *)
(* driver runs against the real APIs.                                      *)
(***************************************************************************)
EXTENDS Ast

CONSTANTS FrameVariant,   \* "copy" | "inplace"
          Apis, MaxCalls

VARIABLES fr,      \* ids the open frame may touch ({} = no frame open)
          prot,    \* the argument tree of the open call: must come back untouched
          calls    \* generator half: the API history

fvars == <<vars, fr, prot, calls>>

Snap(n) == <<cls[n], val[n], quo[n], args[n], parent[n], akey[n], idx[n]>>

Enter(n) ==
    /\ fr = {} /\ n \in used /\ ~Stored(n)
    /\ IF FrameVariant = "copy"
       THEN CopyOf(n) /\ fr' = used' \ used
       ELSE fr' = Descendants(n) /\ UNCHANGED vars
    /\ prot' = Descendants(n)
    /\ UNCHANGED calls

InFrame(S) == S \subseteq fr
Inside ==
    /\ fr # {}
    /\ \/ \E n \in fr, k \in SKeys, v \in fr : SetScalar(n, k, v)
       \/ \E n \in fr, k \in Keys : SetNone(n, k)
       \/ \E n \in fr, v \in fr : SetList(n, <<v>>)
       \/ \E n \in fr, i \in 1..N : SetIdxNone(n, i)
       \/ \E n \in fr, k \in Keys, v \in fr : AppendTo(n, k, v)
       \/ \E a \in fr, v \in fr \cup {None} : (parent[a] \in fr /\ ReplaceWith(a, v))
       \/ \E n \in fr : HashNode(n)
       \/ \E n \in fr, k \in {"this", "quoted"}, sv \in {"", "x", "X", "T"} : SetLeaf(n, k, sv)
    /\ UNCHANGED <<fr, prot, calls>>

Exit == fr # {} /\ fr' = {} /\ prot' = {} /\ UNCHANGED <<vars, calls>>

\* outside a frame the caller may do anything the contract allows (Ast.Next), including hashing the original
Outside == fr = {} /\ Next /\ UNCHANGED <<fr, prot, calls>>

FInit == Init /\ fr = {} /\ prot = {} /\ calls = <<>>
FNext == (\E n \in used : Enter(n)) \/ Inside \/ Exit \/ Outside

FrameOK == [][ (fr # {} /\ fr' # {}) => \A n \in prot : Snap(n)' = Snap(n) ]_fvars
\* after a copying frame the result shares nothing with the argument
Disjoint == FrameVariant = "copy" => (fr \cap prot = {} /\ \A n \in fr : \A c \in ChildIds(n) : c \in fr)

(* ---- generator of API histories ---- *)
GInit == calls = <<>> /\ fr = {} /\ prot = {} /\ Init
GNext == /\ Len(calls) < MaxCalls
         /\ \E a \in Apis : calls' = Append(calls, a)
         /\ UNCHANGED <<vars, fr, prot>>
EmitCalls == PrintT(ToJson([calls |-> calls]))
=============================================================================
