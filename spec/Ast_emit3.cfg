CONSTANTS
  N = 5
  Pop = "bvlll"
  MaxOps = 3
  Variant = "code"
  ExtraKeys = {}
INIT Init
NEXT Next
VIEW View
ACTION_CONSTRAINT Emit
INVARIANT LinkOK
INVARIANT NoSharing
INVARIANT HashOK
