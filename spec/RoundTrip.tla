------------------------------ MODULE RoundTrip ------------------------------
(* Acceptor for recorded round-trip pipelines (C01) and option runs (C07).        *)
(* C01 case: [kind "rt", base, parsed0, generated, parsed1, s1, s2 (digests),      *)
(*            tree_eq, fmt_kept]; clauses are Grammar.tla's.                       *)
(* C07 case: [kind "opt", parsed, same_tree (the optioned output parses back to    *)
(*            the default output's tree modulo the option's own effect),           *)
(*            sentinel (the internal line-break sentinel occurs in the output),    *)
(*            comment_leak (comments=False output contains comment text)]          *)
EXTENDS Grammar, IOUtils

VARIABLE i
Cases == JsonDeserialize(IOEnv.CASES)

JudgeRT(c) == IF c.parsed0 /\ ~c.generated THEN "Generates"
              ELSE IF ~Reparses(c) THEN "Reparses"
              ELSE IF ~Fixpoint(c) THEN "Fixpoint"
              ELSE IF ~SameTree(c) THEN "SameTree"
              ELSE IF ~FormatKept(c) THEN "FormatKept"
              ELSE "OK"
JudgeOpt(c) == IF c.sentinel THEN "NoSentinel"
               ELSE IF c.comment_leak THEN "NoCommentText"
               ELSE IF ~c.parsed THEN "OptionReparses"
               ELSE IF ~c.same_tree THEN "SameMeaning"
               ELSE "OK"
RInit == i \in 1..Len(Cases) /\ t = <<>>
RNext == UNCHANGED <<i, t>>
Verdict == PrintT(<<"V", Cases[i].id, IF Cases[i].kind = "rt" THEN JudgeRT(Cases[i]) ELSE JudgeOpt(Cases[i])>>)
=============================================================================
