------------------------------- MODULE Cursor -------------------------------
(***************************************************************************)
(* The token cursor of sqlglot's recursive-descent parser: _advance,        *)
(* _retreat, _try_parse (speculation: remember the index, parse, restore on *)
(* failure) and the list/loop idiom (_parse_csv, while self._match(..)).    *)
(* Design argument for termination: every loop iteration either consumes at *)
(* least one token or leaves the loop, every retreat goes back to an index  *)
(* saved in the current parse, so the pair (tokens left, open frames)       *)
(* decreases lexicographically along every loop.                            *)
(* Variant "no_progress" lets a loop body return without consuming (the     *)
(* seeded-defect shape): the parse then has a behaviour that never ends.    *)
(***************************************************************************)
EXTENDS Naturals, Sequences, FiniteSets, TLC

CONSTANTS N,         \* number of tokens
          MaxFrames, \* nesting of speculation / loops
          Variant    \* "code" | "no_progress" | "retreat_off_by_one"

VARIABLES idx,      \* cursor position 0..N (N = all consumed)
          frames,   \* stack of [kind |-> "try" | "loop", at |-> saved index / index at the start of the iteration]
          done,
          iters     \* loop iterations started so far (makes an iteration that changes nothing else visible)

vars == <<idx, frames, done, iters>>
Top == frames[Len(frames)]
Pop == SubSeq(frames, 1, Len(frames) - 1)

Init == idx = 0 /\ frames = <<>> /\ done = FALSE /\ iters = 0

\* consume k >= 1 tokens
Advance == \E k \in 1..2 :
    /\ ~done /\ idx + k <= N
    /\ idx' = idx + k
    /\ UNCHANGED <<frames, done, iters>>
TryEnter == /\ ~done /\ Len(frames) < MaxFrames
            /\ frames' = Append(frames, [kind |-> "try", at |-> idx])
            /\ UNCHANGED <<idx, done, iters>>
TryOk   == /\ ~done /\ frames # <<>> /\ Top.kind = "try" /\ frames' = Pop /\ UNCHANGED <<idx, done, iters>>
TryFail == /\ ~done /\ frames # <<>> /\ Top.kind = "try"
           /\ idx' = IF Variant = "retreat_off_by_one" /\ Top.at > 0 THEN Top.at - 1 ELSE Top.at
           /\ frames' = Pop /\ UNCHANGED <<done, iters>>
LoopEnter == /\ ~done /\ Len(frames) < MaxFrames
             /\ frames' = Append(frames, [kind |-> "loop", at |-> idx])
             /\ UNCHANGED <<idx, done, iters>>
\* end of one iteration of the body: go round again only if it consumed something
LoopAgain == /\ ~done /\ frames # <<>> /\ Top.kind = "loop"
             /\ (Variant = "no_progress" \/ idx > Top.at)       \* the body consumed something since the iteration began
             /\ frames' = [frames EXCEPT ![Len(frames)] = [@ EXCEPT !.at = idx]]
             /\ iters < 2 * N + 2 /\ iters' = iters + 1
             /\ UNCHANGED <<idx, done>>
LoopExit == /\ ~done /\ frames # <<>> /\ Top.kind = "loop" /\ frames' = Pop /\ UNCHANGED <<idx, done, iters>>
Finish == /\ ~done /\ frames = <<>> /\ done' = TRUE /\ UNCHANGED <<idx, frames, iters>>

Next == Advance \/ TryEnter \/ TryOk \/ TryFail \/ LoopEnter \/ LoopAgain \/ LoopExit \/ Finish \/ (done /\ UNCHANGED vars)
Spec == Init /\ [][Next]_vars /\ WF_vars(Next)

InRange == idx \in 0..N
\* retreat targets were visited: a saved index never exceeds the cursor
SavedBelow == \A i \in DOMAIN frames : frames[i].at <= idx
\* the variant function of the termination argument: strictly decreasing measure on LoopAgain
NoFreeIteration == [][ iters' = iters + 1 => Top.at < idx ]_vars
\* (iterations are bounded by the tokens consumed *per attempt*; how often the grammar re-tries a position is outside this model)
\* every parse ends (under weak fairness of the parser's own steps)
Terminates == <>done
=============================================================================
