----------------------------- MODULE LineageWalk -----------------------------
(***************************************************************************)
(* The memoised graph construction of sqlglot.lineage.to_node over the     *)
(* view DAGs of Lineage.tla: one node per (output column, scope), created  *)
(* on first request and re-attached (upstream.downstream.append) on every  *)
(* later request with the same cache key.  The cache lives for one         *)
(* lineage() call and is shared by all output columns when column=None.    *)
(*                                                                         *)
(* Walk threads the store st = [cache, down] through the recursion:        *)
(*   cache : sequence of <<key, node id>>,  down : node id -> child ids    *)
(* TLC checks, on every DAG the generator reaches, that the leaves of the  *)
(* memoised graph of every column of every definition - built one after    *)
(* the other in the same store - are exactly LineageSem.Out (MemoAgrees).  *)
(* Negative controls: a cache key without the scope ("key_without_scope")  *)
(* or without the column ("key_without_column").                            *)
(***************************************************************************)
EXTENDS Lineage

\* node ids: tables' columns are leaves <<"t", name, c>>; view columns are <<"v", i, c>> encoded as records (uniform type)
Key(n) == CASE Variant = "key_without_scope" -> [k |-> n.k, name |-> n.name, i |-> 0, c |-> n.c]
            [] Variant = "key_without_column" -> [k |-> n.k, name |-> n.name, i |-> n.i, c |-> 0]
            [] OTHER -> n

Find(cache, key) == IF \E x \in DOMAIN cache : cache[x][1] = key THEN cache[CHOOSE x \in DOMAIN cache : cache[x][1] = key][2] ELSE [k |-> "none", name |-> "", i |-> 0, c |-> 0]

RECURSIVE Walk(_, _, _)
RECURSIVE WalkAll(_, _, _)
\* visit the children in ds (a sequence of nodes) one after the other, threading the store
WalkAll(ds, k, st) == IF k > Len(ds) THEN st ELSE WalkAll(ds, k + 1, Walk(ds[k], st, FALSE))
\* Walk(n, st, top): make sure node n is in the store
Walk(n, st, top) ==
    IF n.k = "t" THEN st
    ELSE LET hit == Find(st.cache, Key(n)) IN
         IF hit.k # "none" THEN
             \* cache hit: the cached node stands for n (with the wrong key it may be another scope's node)
             [st EXCEPT !.alias = @ @@ (n :> hit)]
         ELSE LET ds == SetToSeq(Deps(defs, n.i)[n.c])
                  st1 == WalkAll(ds, 1, st)
              IN [st1 EXCEPT !.down = @ @@ (n :> ds), !.cache = Append(@, <<Key(n), n>>)]

Resolve(st, n) == IF n \in DOMAIN st.alias THEN st.alias[n] ELSE n
RECURSIVE LeavesOf(_, _)
LeavesOf(st, n0) == LET n == Resolve(st, n0) IN
                    IF n.k = "t" THEN {<<n.name, Tables[n.name][n.c]>>}
                    ELSE IF n \notin DOMAIN st.down THEN {}
                    ELSE UNION { LeavesOf(st, st.down[n][x]) : x \in DOMAIN st.down[n] }

Empty == [cache |-> <<>>, down |-> <<>>, alias |-> <<>>]
\* all columns of definition i in one store (lineage(None, ...)), then the leaves of each
Columns(i) == [j \in 1..Len(Out(defs, i)) |-> VNode(i, j)]
StoreFor(i) == WalkAll(Columns(i), 1, Empty)
MemoAgrees == \A i \in 1..Len(defs) : LET st == StoreFor(i) IN
                 \A j \in 1..Len(Out(defs, i)) : LeavesOf(st, VNode(i, j)) = Out(defs, i)[j].lv
=============================================================================
