----------------------------- MODULE ScanTrace -----------------------------
(* Acceptor for recorded runs of the real tokenizer / parser (code -> spec). *)
(* A case: the input as code points, the tokens (start, end, line, col,     *)
(* kind, text), the ParseError entries and the positions recorded on        *)
(* identifier nodes.  Everything is recomputed here from the code points:   *)
(* RefLine/RefCol are the reference positions of Scanner.tla.               *)
EXTENDS Naturals, Sequences, FiniteSets, TLC, Json, IOUtils

VARIABLE i
Cases == JsonDeserialize(IOEnv.CASES)

LF == 10  CR == 13
IsWhite(c) == c \in {9, 10, 11, 12, 13, 32, 28, 29, 30, 31, 133, 160, 5760, 8232, 8233, 8239, 8287, 12288} \/ c \in 8192..8202

Break(t, j) == t[j] = LF \/ (t[j] = CR /\ (j = Len(t) \/ t[j + 1] # LF))
BreaksBefore(t, k) == { j \in 1..(k - 1) : Break(t, j) }
Max(S) == CHOOSE x \in S : \A y \in S : y <= x
RefLine(t, k) == 1 + Cardinality(BreaksBefore(t, k))
\* the code's convention: the LF of a CR LF pair shares the column of the CR
RECURSIVE RefCol(_, _)
RefCol(t, k)  == IF k > 1 /\ t[k] = LF /\ t[k - 1] = CR THEN RefCol(t, k - 1)
                 ELSE IF BreaksBefore(t, k) = {} THEN k ELSE k - Max(BreaksBefore(t, k))

\* 0-based inclusive offsets, as the tokenizer reports them
Slice(t, s, e) == IF s > e THEN <<>> ELSE SubSeq(t, s + 1, e + 1)
Up(c) == IF c \in 97..122 THEN c - 32 ELSE c
UpSeq(s) == [j \in DOMAIN s |-> Up(s[j])]
NoWhite(s) == SelectSeq(s, LAMBDA c : ~IsWhite(c))
StartsWith(s, p) == Len(p) <= Len(s) /\ SubSeq(s, 1, Len(p)) = p
RECURSIVE TrimLeft(_)
TrimLeft(s) == IF s # <<>> /\ IsWhite(s[1]) THEN TrimLeft(Tail(s)) ELSE s
AllWhite(s) == \A j \in DOMAIN s : IsWhite(s[j])

InRange(c)  == \A k \in DOMAIN c.toks : LET t == c.toks[k] IN t.s >= 0 /\ t.s <= t.e /\ t.e < Len(c.cps)
Ordered(c)  == \A k \in 1..(Len(c.toks) - 1) : c.toks[k].e < c.toks[k + 1].s
TokPosOK(c) == \A k \in DOMAIN c.toks : LET t == c.toks[k] IN
                  t.e < Len(c.cps) => (t.l = RefLine(c.cps, t.e + 1) /\ t.c = RefCol(c.cps, t.e + 1))

\* between tokens: only whitespace, or text that starts (after blanks) with a comment opener of the dialect
GapText(c, k) == LET n == Len(c.toks)
                     a == IF k = 0 THEN 0 ELSE c.toks[k].e + 1
                     b == IF k = n THEN Len(c.cps) - 1 ELSE c.toks[k + 1].s - 1
                 IN Slice(c.cps, a, b)
GapOK(c) == c.tokenized /\ InRange(c) /\ Ordered(c) =>
            \A k \in 0..Len(c.toks) : LET g == GapText(c, k) IN
                AllWhite(g) \/ \E m \in DOMAIN c.cm : StartsWith(TrimLeft(g), c.cm[m])

\* the span selects the lexeme: per kind of token
LexOK(c) == InRange(c) => \A k \in DOMAIN c.toks : LET t == c.toks[k]  sl == Slice(c.cps, t.s, t.e) IN
    CASE t.k = "raw" -> UpSeq(sl) = UpSeq(t.txt)
      [] t.k = "ws"  -> UpSeq(NoWhite(sl)) = UpSeq(NoWhite(t.txt))
      [] t.k = "sfx" -> Len(sl) >= Len(t.txt) /\ UpSeq(SubSeq(sl, Len(sl) - Len(t.txt) + 1, Len(sl))) = UpSeq(t.txt)
      [] t.k = "cmd" -> NoWhite(sl) = NoWhite(t.txt) /\ sl # <<>> /\ ~IsWhite(sl[1])
      [] t.k = "str" -> sl # <<>> /\ (\E m \in DOMAIN c.qs : StartsWith(sl, c.qs[m])) /\ Len(sl) >= Len(t.txt)
      [] OTHER -> TRUE

\* ParseError entries: line/col are those of some token, the highlight is that token's text span,
\* and the contexts are the text around it
ErrOK(c) == \A x \in DOMAIN c.errs : LET er == c.errs[x] IN
    \E k \in DOMAIN c.toks : LET t == c.toks[k] IN
        /\ er.l = t.l /\ er.c = t.c
        /\ er.hl = Slice(c.cps, t.s, t.e)
        /\ er.sc = Slice(c.cps, t.s - Len(er.sc), t.s - 1)
        /\ er.ec = Slice(c.cps, t.e + 1, t.e + Len(er.ec))

\* a quoted identifier's source text: the name with its delimiter doubled or characters backslash-escaped, between delimiters
RECURSIVE EscapedForm(_, _, _)
EscapedForm(inner, name, q) ==
    IF inner = <<>> THEN name = <<>>
    ELSE \/ (name # <<>> /\ Head(inner) = Head(name) /\ EscapedForm(Tail(inner), Tail(name), q))
         \/ (Head(inner) \in {q, 92} /\ EscapedForm(Tail(inner), name, q))

\* positions copied onto Identifier / Column / Table nodes
NodeOK(c) == \A x \in DOMAIN c.nodes : LET nd == c.nodes[x]  sl == Slice(c.cps, nd.s, nd.e) IN
    /\ nd.s >= 0 /\ nd.s <= nd.e /\ nd.e < Len(c.cps)
    /\ nd.l = RefLine(c.cps, nd.e + 1) /\ nd.c = RefCol(c.cps, nd.e + 1)
    /\ \/ UpSeq(sl) = UpSeq(nd.name)
       \/ (Len(sl) = Len(nd.name) + 2 /\ SubSeq(sl, 2, Len(sl) - 1) = nd.name)
       \/ (Len(sl) > Len(nd.name) + 2 /\ EscapedForm(SubSeq(sl, 2, Len(sl) - 1), nd.name, sl[1]))

\* TokenError start/end delimit the snippet it quotes
TokErrOK(c) == c.te = <<>> \/ (LET x == c.te[1] IN x.s >= 0 /\ x.s <= x.e /\ x.e <= Len(c.cps) /\ Slice(c.cps, x.s, x.e - 1) = x.ctx)

Clauses(c) == << <<"InRange", InRange(c)>>, <<"Ordered", Ordered(c)>>, <<"TokPosOK", TokPosOK(c)>>,
                 <<"GapOK", GapOK(c)>>, <<"LexOK", LexOK(c)>>, <<"ErrOK", ErrOK(c)>>, <<"NodeOK", NodeOK(c)>>,
                 <<"TokErrOK", TokErrOK(c)>> >>
FirstBad(c) == LET bad == SelectSeq(Clauses(c), LAMBDA p : ~p[2]) IN IF bad = <<>> THEN "OK" ELSE bad[1][1]
MinOr0(S) == IF S = {} THEN 0 ELSE CHOOSE x \in S : \A y \in S : x <= y
\* index of the first token at which the failing clause fails (0 if the clause is not about a token)
BadTok(c) == LET f == FirstBad(c) IN
    CASE f = "InRange"  -> MinOr0({ k \in DOMAIN c.toks : ~(c.toks[k].s >= 0 /\ c.toks[k].s <= c.toks[k].e /\ c.toks[k].e < Len(c.cps)) })
      [] f = "Ordered"  -> MinOr0({ k + 1 : k \in { j \in 1..(Len(c.toks) - 1) : c.toks[j].e >= c.toks[j + 1].s } })
      [] f = "TokPosOK" -> MinOr0({ k \in DOMAIN c.toks : ~(c.toks[k].l = RefLine(c.cps, c.toks[k].e + 1) /\ c.toks[k].c = RefCol(c.cps, c.toks[k].e + 1)) })
      [] OTHER -> 0

Init == i \in 1..Len(Cases)
Next == UNCHANGED i
Verdict == PrintT(<<"V", Cases[i].id, FirstBad(Cases[i]), BadTok(Cases[i])>>)
=============================================================================
