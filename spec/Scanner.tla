------------------------------ MODULE Scanner ------------------------------
(***************************************************************************)
(* Position bookkeeping of sqlglot's tokenizer (tokenizer_core.py).  The    *)
(* scanner keeps _current, _line, _col by hand; most steps go through       *)
(* _advance(i), which only looks at the character it *starts on*, and a few *)
(* fast paths update the counters directly.  One action per way the cursor  *)
(* moves; each enabling condition states what the calling code guarantees   *)
(* about the characters that are jumped over.                               *)
(*                                                                         *)
(* Reference: RefLine / RefCol are defined from the text alone.            *)
(* Invariant PosOK: after every move the counters describe the character    *)
(* the cursor sits on.  Token line/col are stamped from these counters, so  *)
(* PosOK is the model-level form of "line and column agree with the offset".*)
(***************************************************************************)
EXTENDS Naturals, Sequences, FiniteSets, TLC, Json

CONSTANTS MaxLen,       \* texts of length 1..MaxLen
          Alphabet,     \* character classes: "SP" "TAB" "LF" "CR" "a" "1" "q" (quote) "bs" (backslash) "p" (punctuation)
          Variant       \* "code" | "fast_lf_only" | "fold_jump" | "escape_jump" | "blank_cr"

VARIABLES text, cur, line, col, steps
vars == <<text, cur, line, col, steps>>

RECURSIVE SeqsOfLen(_)
SeqsOfLen(n) == IF n = 0 THEN {<<>>} ELSE { Append(s, c) : s \in SeqsOfLen(n - 1), c \in Alphabet }
Texts == UNION { SeqsOfLen(n) : n \in 1..MaxLen }

(* --------------------------- reference positions --------------------------- *)
\* a line break is LF, or CR that is not followed by LF (CRLF counts once, at the LF)
Break(t, j) == t[j] = "LF" \/ (t[j] = "CR" /\ (j = Len(t) \/ t[j + 1] # "LF"))
BreaksBefore(t, k) == { j \in 1..(k - 1) : Break(t, j) }
Max(S) == CHOOSE x \in S : \A y \in S : y <= x
RefLine(t, k) == 1 + Cardinality(BreaksBefore(t, k))
\* the code's convention: the LF of a CR LF pair shares the column of the CR (_advance leaves _col alone there)
RECURSIVE RefCol(_, _)
RefCol(t, k)  == IF k > 1 /\ t[k] = "LF" /\ t[k - 1] = "CR" THEN RefCol(t, k - 1)
                 ELSE IF BreaksBefore(t, k) = {} THEN k - Cardinality({ j \in 2..(k - 1) : t[j] = "LF" /\ t[j - 1] = "CR" })
                 ELSE k - Max(BreaksBefore(t, k))

Blank(c)  == c \in {"SP", "TAB"}
Space(c)  == c \in {"SP", "TAB", "LF", "CR"}
Alnum(c)  == c \in {"a", "1"}

(* ------------------------------- the moves -------------------------------- *)
\* _advance(i): decides by the character it starts on (cur = 0: nothing consumed yet, _char = "")
AdvanceBy(i) ==
    /\ cur + i <= Len(text)
    /\ cur' = cur + i
    /\ IF cur >= 1 /\ Break(text, cur)
       THEN line' = line + 1 /\ col' = i
       ELSE IF cur >= 1 /\ text[cur] = "CR"          \* CR before LF: neither branch of the code touches _col
       THEN line' = line /\ col' = col
       ELSE line' = line /\ col' = col + i
    /\ steps' = steps + 1
    /\ UNCHANGED text

NoBreakIn(a, b) == \A j \in a..b : ~Break(text, j)     \* chars a..b are jumped over

\* ordinary single step
Step1 == AdvanceBy(1)

\* _scan: leading blanks are skipped in one _advance(offset); only SP and TAB are skipped
BlankSkip == \E n \in 2..MaxLen :
    /\ cur + n <= Len(text)
    /\ \A j \in (cur + 1)..(cur + n - 1) : IF Variant = "blank_cr" THEN text[j] \in {"SP", "TAB", "CR"} ELSE Blank(text[j])
    /\ AdvanceBy(n)

\* _scan_number: consecutive digits are consumed by one _advance(n)
DigitBatch == \E n \in 2..MaxLen :
    /\ cur + n <= Len(text)
    /\ \A j \in (cur + 1)..(cur + n) : text[j] = "1"
    /\ AdvanceBy(n)

\* _advance(alnum=True): after the step, a run of alphanumerics is consumed with col += 1 each, no line logic
AlnumRun == \E n \in 1..MaxLen :
    /\ cur >= 1 /\ Alnum(text[cur])
    /\ cur + n <= Len(text)
    /\ \A j \in (cur + 1)..(cur + n) : Alnum(text[j])
    /\ cur' = cur + n /\ col' = col + n /\ line' = line /\ steps' = steps + 1 /\ UNCHANGED text

\* _scan_keywords: a multi-word keyword whose words are separated by a whitespace run.  The code steps one
\* character at a time when the run contains a line break, and jumps otherwise.
KeywordFold == \E n \in 2..MaxLen :
    /\ cur >= 1 /\ text[cur] = "a"
    /\ cur + n <= Len(text)
    /\ \E m \in (cur + 1)..(cur + n - 1) : Space(text[m])       \* at least one folded space
    /\ \A j \in (cur + 1)..(cur + n - 1) : Space(text[j]) \/ text[j] = "a"
    /\ text[cur + n] = "a"
    /\ IF Variant # "fold_jump" /\ ~NoBreakIn(cur, cur + n - 1)
       THEN \* stepwise: n single _advance() calls; the net effect is the reference position
            /\ cur' = cur + n /\ line' = RefLine(text, cur + n) /\ col' = RefCol(text, cur + n)
            /\ steps' = steps + n /\ UNCHANGED text
       ELSE AdvanceBy(n)

\* _extract_string fast path (str.find): from the opening quote at cur to the closing quote at e.
\* Taken only if the body has no backslash-escape processing to do and (since the fix) no CR.
StringFast == \E e \in 1..MaxLen :
    /\ cur >= 1 /\ text[cur] = "q" /\ e > cur /\ e <= Len(text) /\ text[e] = "q"
    /\ \A j \in (cur + 1)..(e - 1) : text[j] # "q" /\ text[j] # "bs"
    /\ Variant # "fast_lf_only" => \A j \in (cur + 1)..(e - 1) : text[j] # "CR"
    /\ LET lfs == { j \in (cur + 1)..(e - 1) : text[j] = "LF" }
       IN IF lfs = {} THEN line' = line /\ col' = col + (e - cur)
          ELSE line' = line + Cardinality(lfs) /\ col' = e - Max(lfs)
    /\ cur' = e /\ steps' = steps + 1 /\ UNCHANGED text

\* _extract_string slow path: an escape character followed by an escaped one is consumed by _advance(2)
EscapePair ==
    /\ cur >= 1 /\ text[cur] = "bs" /\ cur + 2 <= Len(text)
    /\ IF Variant # "escape_jump" /\ text[cur + 1] \in {"LF", "CR"}
       THEN \* an escaped line break: two single _advance() calls
            /\ cur' = cur + 2 /\ line' = RefLine(text, cur + 2) /\ col' = RefCol(text, cur + 2)
            /\ steps' = steps + 2 /\ UNCHANGED text
       ELSE AdvanceBy(2)

\* _scan_number numeric-suffix retreat: _advance(-n) back over identifier characters
Retreat == \E n \in 1..MaxLen :
    /\ cur - n >= 1
    /\ \A j \in (cur - n)..cur : Alnum(text[j])      \* lands on the last digit of the number
    /\ cur' = cur - n /\ col' = col - n /\ line' = line /\ steps' = steps + 1 /\ UNCHANGED text

Init == /\ text \in Texts /\ cur = 0 /\ line = 1 /\ col = 0 /\ steps = 0
Next == /\ steps < 2 * MaxLen
        /\ (Step1 \/ BlankSkip \/ DigitBatch \/ AlnumRun \/ KeywordFold \/ StringFast \/ EscapePair \/ Retreat)
NoNext == FALSE /\ UNCHANGED vars
Spec == Init /\ [][Next]_vars

PosOK == cur >= 1 => (line = RefLine(text, cur) /\ col = RefCol(text, cur))
TypeOK == cur \in 0..Len(text)

(* text generator for the conformance run: every abstract text is an initial state *)
EmitText == PrintT(ToJson([t |-> text]))
=============================================================================
