------------------------------ MODULE TypeTrace ------------------------------
(* Acceptor for C16 (code + engine -> spec): a case is one evaluated expression: *)
(* the base type name annotate_types inferred for it under the DuckDB dialect,   *)
(* the base type name DuckDB reported for the evaluated expression, and whether   *)
(* annotating changed the generated SQL.  Classes and clauses are Types.tla's.    *)
EXTENDS Types, IOUtils

VARIABLE i
Cases == JsonDeserialize(IOEnv.CASES)
Judge(c) == IF ~c.sql_same THEN "SqlUnchanged"
            ELSE IF ~SameClass(c.inferred, c.engine) THEN "SameClass" ELSE "OK"
TInit == i \in 1..Len(Cases) /\ t = <<>>
TNext == UNCHANGED <<i, t>>
Verdict == PrintT(<<"V", Cases[i].id, Judge(Cases[i]), ClassOf(Cases[i].inferred), ClassOf(Cases[i].engine)>>)
=============================================================================
