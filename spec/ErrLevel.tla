------------------------------ MODULE ErrLevel ------------------------------
(***************************************************************************)
(* The error-reporting machine of sqlglot's Parser (raise_error,           *)
(* validate_expression, _try_parse, check_errors) as four copies that      *)
(* consume the *same* event stream in lock step, one per ErrorLevel.       *)
(*                                                                         *)
(* Events of the stream (what happens while parsing, independent of the    *)
(* configured level):                                                      *)
(*   "err"       raise_error outside any speculative parse                 *)
(*   "verr"      a validation error (validate_expression) outside _try_parse*)
(*   "try_enter" _try_parse saves the level and switches to IMMEDIATE      *)
(*   "try_fail"  the speculative parse raised; caught, level restored      *)
(*   "try_ok"    the speculative parse succeeded; level restored           *)
(*   "chunk_end" end of a statement: check_errors                          *)
(* The generator half of the property (unsupported_level) is the same      *)
(* machine without speculation: "err" = Generator.unsupported(msg),        *)
(* "chunk_end" = the end of generate().                                    *)
(***************************************************************************)
EXTENDS Naturals, Sequences, FiniteSets, TLC, Json

CONSTANTS MaxLen,      \* length of the event stream
          MaxDepth,    \* nesting of speculative parses
          Variant      \* "code" | "no_restore_on_ok" | "warn_raises" | "ignore_validates"

Levels == {"IGNORE", "WARN", "RAISE", "IMMEDIATE"}

VARIABLES stream,   \* events so far
          depth,    \* open speculative parses
          st        \* per configured level: [level, saved, errors, logged, raised, dead, chunks]

vars == <<stream, depth, st>>

Copy0(l) == [level |-> l, saved |-> <<>>, errors |-> <<>>, logged |-> <<>>, raised |-> <<>>, dead |-> FALSE, chunks |-> 0]

\* one copy consuming one event; k is the identity of the error (its position in the stream)
StepCopy(c, cfg, ev, k) ==
    IF c.dead THEN c
    ELSE CASE ev = "err" ->
                IF c.level = "IMMEDIATE" THEN [c EXCEPT !.raised = <<k>>, !.dead = TRUE]
                ELSE [c EXCEPT !.errors = Append(@, k)]
           [] ev = "verr" ->
                IF c.level = "IGNORE" /\ Variant # "ignore_validates" THEN c
                ELSE IF c.level = "IMMEDIATE" THEN [c EXCEPT !.raised = <<k>>, !.dead = TRUE]
                ELSE [c EXCEPT !.errors = Append(@, k)]
           [] ev = "try_enter" -> [c EXCEPT !.saved = Append(@, c.level), !.level = "IMMEDIATE"]
           [] ev = "try_fail" -> [c EXCEPT !.level = c.saved[Len(c.saved)], !.saved = SubSeq(@, 1, Len(@) - 1)]
           [] ev = "try_ok" ->
                IF Variant = "no_restore_on_ok" THEN [c EXCEPT !.saved = SubSeq(@, 1, Len(@) - 1)]
                ELSE [c EXCEPT !.level = c.saved[Len(c.saved)], !.saved = SubSeq(@, 1, Len(@) - 1)]
           [] ev = "chunk_end" ->
                IF c.level = "WARN" THEN
                    (IF Variant = "warn_raises" /\ c.errors # <<>> THEN [c EXCEPT !.raised = c.errors, !.dead = TRUE]
                     ELSE [c EXCEPT !.logged = @ \o c.errors, !.chunks = @ + 1])     \* logs every collected error, again
                ELSE IF c.level = "RAISE" /\ c.errors # <<>> THEN [c EXCEPT !.raised = c.errors, !.dead = TRUE]
                ELSE [c EXCEPT !.chunks = @ + 1]

Feed(ev) ==
    /\ Len(stream) < MaxLen
    /\ stream' = Append(stream, ev)
    /\ st' = [l \in Levels |-> StepCopy(st[l], l, ev, Len(stream) + 1)]

Init == stream = <<>> /\ depth = 0 /\ st = [l \in Levels |-> Copy0(l)]
Next ==
    \/ depth = 0 /\ Feed("err") /\ UNCHANGED depth
    \/ depth = 0 /\ Feed("verr") /\ UNCHANGED depth
    \/ depth < MaxDepth /\ Feed("try_enter") /\ depth' = depth + 1
    \/ depth > 0 /\ Feed("try_fail") /\ depth' = depth - 1
    \/ depth > 0 /\ Feed("try_ok") /\ depth' = depth - 1
    \/ depth = 0 /\ Feed("chunk_end") /\ UNCHANGED depth
Spec == Init /\ [][Next]_vars

(* ------------------------------ properties ------------------------------ *)
\* IGNORE and WARN never raise and produce the same statements
NoRaise == ~st["IGNORE"].dead /\ ~st["WARN"].dead /\ st["IGNORE"].chunks = st["WARN"].chunks
\* RAISE raises exactly when WARN has logged something, with exactly the errors collected so far
RaiseIffLogged == /\ st["RAISE"].dead <=> st["WARN"].logged # <<>>
                  /\ st["RAISE"].dead => st["RAISE"].raised = SubSeq(st["WARN"].errors, 1, Len(st["RAISE"].raised))
\* IMMEDIATE raises the first of the errors WARN collects (validation errors included)
ImmediateFirst == st["IMMEDIATE"].dead => (st["WARN"].errors # <<>> /\ st["IMMEDIATE"].raised = <<st["WARN"].errors[1]>>)
ImmediateIff == (st["WARN"].errors # <<>>) => st["IMMEDIATE"].dead
\* outside speculation the configured level is in force
Restored == depth = 0 => \A l \in Levels : ~st[l].dead => (st[l].level = l /\ st[l].saved = <<>>)
=============================================================================
