------------------------------ MODULE TimeFmt ------------------------------
(***************************************************************************)
(* sqlglot.time.format_time, transcribed step by step (C01: time-format    *)
(* strings survive the round trip).  format_time scans the string with a   *)
(* trie of the mapping's keys, remembers the last complete key seen (sym), *)
(* and on a failed step emits sym (or one character) and restarts behind   *)
(* it.  Loop mirrors the while loop of the function, variable by variable: *)
(*   start, end   the window string[start:end] (Python indices)            *)
(*   cur          the path walked in the trie since the last restart       *)
(*   sym          the last window that was a complete key, <<>> for None   *)
(*   chunks       the emitted pieces                                        *)
(* LM is what the docstring promises: greedy longest match from the left.  *)
(*                                                                         *)
(* The dialect tables (TIME_MAPPING, INVERSE_TIME_MAPPING) are exported    *)
(* from the working tree.  For every dialect and every string made of one  *)
(* key, two adjacent keys or two keys around a separator TLC evaluates     *)
(*   Deviates      Loop's answer differs from LM's                         *)
(*   NonIdempotent N(N(s)) # N(s) with N = inverse o forward               *)
(* and prints the forward image of the string; the driver replays the same *)
(* strings through the real format_time (spec -> code) and feeds every     *)
(* string the model flags into the real round-trip pipeline.               *)
(***************************************************************************)
EXTENDS Naturals, Sequences, FiniteSets, TLC, Json, IOUtils

Data == JsonDeserialize(IOEnv.TABLES)
NDialects == Len(Data)

Range(f) == { f[x] : x \in DOMAIN f }
KeysOf(map) == { map[k][1] : k \in DOMAIN map }
Lookup(map, c) == IF \E k \in DOMAIN map : map[k][1] = c THEN map[CHOOSE k \in DOMAIN map : map[k][1] = c][2] ELSE c
IsPre(p, s) == Len(p) <= Len(s) /\ SubSeq(s, 1, Len(p)) = p
\* one step in the trie: the walked path is a complete key / a proper prefix of a key / neither
Res(w, keys) == IF w \in keys THEN "E"
                ELSE IF \E k \in keys : Len(k) > Len(w) /\ IsPre(w, k) THEN "P" ELSE "F"
Py(s, a, b) == SubSeq(s, a + 1, b)          \* Python's s[a:b]

RECURSIVE Loop(_, _, _, _, _, _, _)
Loop(s, keys, start, end, cur, sym, chunks) ==
    IF end > Len(s) THEN chunks
    ELSE LET chars == Py(s, start, end)
             w == Append(cur, chars[Len(chars)])
             res == Res(w, keys)
         IN IF res = "F" THEN
                LET useSym == sym # <<>>
                    ch == IF useSym THEN sym ELSE <<chars[1]>>
                    end1 == IF useSym THEN end - 1 ELSE start + 1
                IN Loop(s, keys, start + Len(ch), end1 + 1, <<>>, <<>>, Append(chunks, ch))
            ELSE LET sym1 == IF res = "E" THEN chars ELSE sym
                     end2 == end + 1
                 IN Loop(s, keys, start, end2, w, sym1, IF end2 > Len(s) THEN Append(chunks, chars) ELSE chunks)

RECURSIVE Cat(_)
Cat(ss) == IF ss = <<>> THEN <<>> ELSE Head(ss) \o Cat(Tail(ss))
FormatTime(s, map) == LET ch == Loop(s, KeysOf(map), 0, 1, <<>>, <<>>, <<>>) IN Cat([k \in DOMAIN ch |-> Lookup(map, ch[k])])

RECURSIVE LM(_, _)
LM(s, map) ==
    IF s = <<>> THEN <<>>
    ELSE LET ps == { k \in KeysOf(map) : IsPre(k, s) } IN
         IF ps = {} THEN <<Head(s)>> \o LM(Tail(s), map)
         ELSE LET best == CHOOSE k \in ps : \A j \in ps : Len(j) <= Len(k)
              IN Lookup(map, best) \o LM(SubSeq(s, Len(best) + 1, Len(s)), map)

N(d, s) == FormatTime(FormatTime(s, Data[d].fwd), Data[d].inv)
Strings(d) == LET ks == KeysOf(Data[d].fwd) IN
              ks \cup { a \o b : a \in ks, b \in ks } \cup { a \o <<"-">> \o b : a \in ks, b \in ks }

VARIABLES d, s
Init == d \in 1..NDialects /\ s \in Strings(d)
Next == UNCHANGED <<d, s>>
Deviates == FormatTime(s, Data[d].fwd) # LM(s, Data[d].fwd)
NonIdempotent == N(d, N(d, s)) # N(d, s)
Report == PrintT(<<"T", Data[d].name, s, FormatTime(s, Data[d].fwd), Deviates, NonIdempotent>>)
=============================================================================
