------------------------------ MODULE Lineage ------------------------------
(***************************************************************************)
(* Builder of view DAGs for the lineage property (C17): a state is a       *)
(* sequence of closed definitions plus at most one definition under        *)
(* construction.  One action per construction step (StartSelect, AddItem,  *)
(* StartUnion, AddBranch, Close), so TLC's behaviours are the derivations  *)
(* of the query language; every Close emits the DAG (the query is the last *)
(* definition).  The driver renders each DAG in several presentations and  *)
(* LineageTrace judges what sqlglot.lineage.lineage reports.               *)
(***************************************************************************)
EXTENDS LineageSem, Json, SequencesExt

CONSTANTS MaxDefs, MaxFrom, MaxProj, MaxRefs,
          Sample        \* FALSE: every choice is explored; TRUE: each choice point draws one alternative (two-level, so that rare kinds are not drowned)
NamePool == {"a", "b", "x"}

VARIABLES defs, cur
Pick(S) == IF Sample /\ S # {} THEN {RandomElement(S)} ELSE S
vars == <<defs, cur>>

NoSrc == [k |-> "n", name |-> "", i |-> 0]
NoSub == [on |-> FALSE, src |-> NoSrc, c |-> 0]
Closed == [open |-> FALSE, d |-> [kind |-> "", from |-> <<>>, proj |-> <<>>, branches |-> <<>>, op |-> ""]]
Srcs == {[k |-> "t", name |-> n, i |-> 0] : n \in TableNames} \cup {[k |-> "v", name |-> "", i |-> i] : i \in 1..Len(defs)}
FromEntries == {[src |-> s, ren |-> r] : s \in Srcs, r \in BOOLEAN} \ {[src |-> s, ren |-> TRUE] : s \in {x \in Srcs : x.k = "t"}}
FromSeqs == UNION { [1..n -> FromEntries] : n \in 1..MaxFrom }

Avail(d) == UNION { { <<f, c>> : c \in 1..Arity(defs, d.from[f].src) } : f \in 1..Len(d.from) }
RefSeqs(d) == { SetToSeq(S) : S \in { T \in SUBSET Avail(d) : Cardinality(T) <= MaxRefs } }
Subs == {NoSub} \cup UNION { { [on |-> TRUE, src |-> s, c |-> c] : c \in 1..Arity(defs, s) } : s \in Srcs }
Items(d) == {[k |-> "star", name |-> "", refs |-> <<>>, sub |-> NoSub, f |-> 0]}
            \cup {[k |-> "qstar", name |-> "", refs |-> <<>>, sub |-> NoSub, f |-> f] : f \in 1..Len(d.from)}
            \cup {[k |-> "e", name |-> n, refs |-> r, sub |-> s, f |-> 0] : n \in NamePool, r \in RefSeqs(d), s \in Subs}

Sig(it) == <<it.k, Len(it.refs), it.sub.on, it.sub.src.k>>
WfOut(o) == Len(o) <= MaxArity /\ Distinct(NamesOf(o))

EntryKind(e) == <<e.src.k, e.ren>>
StartSelect == /\ ~cur.open /\ Len(defs) < MaxDefs
               /\ \E n \in Pick(1..MaxFrom) : \E ks \in Pick([1..n -> {EntryKind(e) : e \in FromEntries}]) :
                  \E fr \in Pick({f \in [1..n -> FromEntries] : \A j \in 1..n : EntryKind(f[j]) = ks[j]}) :
                    cur' = [open |-> TRUE, d |-> [kind |-> "select", from |-> fr, proj |-> <<>>, branches |-> <<>>, op |-> ""]]
               /\ UNCHANGED defs
AddItem == /\ cur.open /\ cur.d.kind = "select" /\ Len(cur.d.proj) < MaxProj
           /\ \E sg \in Pick({Sig(x) : x \in Items(cur.d)}) : \E it \in Pick({x \in Items(cur.d) : Sig(x) = sg}) :
                LET d2 == [cur.d EXCEPT !.proj = Append(@, it)] IN
                /\ WfOut(SelectOut(defs, d2))
                /\ cur' = [cur EXCEPT !.d = d2]
           /\ UNCHANGED defs
Branches(s) == {[src |-> s, mode |-> m] : m \in (IF s.k = "v" THEN {"inline", "star", "cols"} ELSE {"star", "cols"})}
StartUnion == /\ ~cur.open /\ Len(defs) < MaxDefs
              /\ \E sk \in Pick({x.k : x \in Srcs}) : \E s \in Pick({x \in Srcs : x.k = sk}) : \E b \in Pick(Branches(s)) :      \* the set operator (UNION [ALL] / INTERSECT) is a rendering choice
                    cur' = [open |-> TRUE, d |-> [kind |-> "union", from |-> <<>>, proj |-> <<>>, branches |-> <<b>>, op |-> ""]]
              /\ UNCHANGED defs
Fit == {x \in Srcs : Arity(defs, x) = Arity(defs, cur.d.branches[1].src)}
AddBranch == /\ cur.open /\ cur.d.kind = "union" /\ Len(cur.d.branches) < 3
             /\ \E sk \in Pick({x.k : x \in Fit}) : \E s \in Pick({x \in Fit : x.k = sk}) : \E b \in Pick(Branches(s)) :
                    /\ cur' = [cur EXCEPT !.d.branches = Append(@, b)]
             /\ UNCHANGED defs
Close == /\ cur.open
         /\ IF cur.d.kind = "select" THEN Len(cur.d.proj) >= 1 ELSE Len(cur.d.branches) >= 2
         /\ defs' = Append(defs, cur.d)
         /\ cur' = Closed

Init == defs = <<>> /\ cur = Closed
Next == StartSelect \/ AddItem \/ StartUnion \/ AddBranch \/ Close
Spec == Init /\ [][Next]_vars

(* ------------------------------ properties ------------------------------ *)
\* the two formulations of "flows into" agree
GraphAgrees == \A i \in 1..Len(defs) : /\ Len(Out(defs, i)) = Len(Deps(defs, i))
                                       /\ \A j \in 1..Len(Out(defs, i)) : Out(defs, i)[j].lv = Reach(defs, VNode(i, j))
\* only base-table columns are leaves, output names are unambiguous
LeavesAreBase == \A i \in 1..Len(defs) : \A j \in 1..Len(Out(defs, i)) : Out(defs, i)[j].lv \subseteq BaseColumns
NamesDistinct == \A i \in 1..Len(defs) : WfOut(Out(defs, i))
\* a definition's meaning is fixed once closed: adding definitions never changes earlier ones
Stable == [][\A i \in 1..Len(defs) : Out(defs', i) = Out(defs, i)]_vars
\* positional set operations: every branch contributes to every column
UnionPositional == \A i \in 1..Len(defs) : defs[i].kind = "union" =>
                      \A j \in 1..Len(Out(defs, i)) : \A k \in 1..Len(defs[i].branches) :
                          SrcOut(defs, defs[i].branches[k].src)[j].lv \subseteq Out(defs, i)[j].lv

Emit == (cur.open /\ ~cur'.open) => PrintT(ToJson([defs |-> defs']))
=============================================================================
