------------------------------- MODULE Types -------------------------------
(***************************************************************************)
(* Typed scalar expressions for C16 and the type classes the property      *)
(* speaks of.  Part 1: the classes (a partition of the engine's / the      *)
(* annotator's type names) and the two clauses.  Part 2: the generator of  *)
(* expression terms: a form applied to atoms (typed columns and literals)  *)
(* or, one level down, to form applications.  TLC enumerates the depth-1   *)
(* terms exhaustively and draws depth-2 terms; the driver renders them for *)
(* DuckDB, asks DuckDB for the result type and annotate_types for the      *)
(* inferred type; TypeTrace.tla judges.                                    *)
(***************************************************************************)
EXTENDS Naturals, Sequences, FiniteSets, TLC, Json, Randomization

(* ------------------------------ classes ------------------------------ *)
Integers  == {"TINYINT", "SMALLINT", "INT", "INTEGER", "BIGINT", "HUGEINT", "INT128", "INT256", "UTINYINT", "USMALLINT", "UINTEGER", "UINT", "UBIGINT", "UHUGEINT", "UINT128", "UINT256", "MEDIUMINT", "UMEDIUMINT"}
Reals     == {"DOUBLE", "FLOAT", "REAL", "DECIMAL", "NUMERIC", "BIGDECIMAL", "UDECIMAL", "DECIMAL32", "DECIMAL64", "DECIMAL128", "DECIMAL256", "UDOUBLE"}
Texts     == {"VARCHAR", "TEXT", "CHAR", "NCHAR", "NVARCHAR", "STRING", "BPCHAR", "NAME"}
Timestamps == {"TIMESTAMP", "DATETIME", "TIMESTAMPTZ", "TIMESTAMPLTZ", "TIMESTAMPNTZ", "TIMESTAMP_S", "TIMESTAMP_MS", "TIMESTAMP_NS", "TIMESTAMP WITH TIME ZONE", "DATETIME64", "DATETIME2", "SMALLDATETIME"}
Unknowns  == {"UNKNOWN", "NULL", "\"NULL\"", ""}
ClassOf(n) == CASE n \in Integers -> "integer"
                [] n \in Reals -> "real"
                [] n = "BOOLEAN" -> "boolean"
                [] n \in Texts -> "text"
                [] n \in {"DATE", "DATE32"} -> "date"
                [] n \in Timestamps -> "timestamp"
                [] n = "INTERVAL" -> "interval"
                [] n \in Unknowns -> "unknown"
                [] OTHER -> "other"
\* the annotator makes no claim when it answers UNKNOWN / NULL
SameClass(inferred, engine) == ClassOf(inferred) = "unknown" \/ ClassOf(inferred) = ClassOf(engine)

(* ------------------------------ generator ------------------------------ *)
CONSTANTS Focus, K
Cols == {"b", "ti", "si", "i", "bi", "d", "dec", "s", "dt", "ts"}
Lits == {"int", "float", "str", "null", "date", "ts", "iv_day", "iv_hour", "iv_cast", "true"}
Atoms == {[k |-> "col", v |-> c] : c \in Cols} \cup {[k |-> "lit", v |-> l] : l \in Lits}
Unary  == {"neg", "not", "isnull", "upper", "length", "trim", "abs", "round", "round1", "floor", "ceil", "sqrt", "ln", "sign", "year", "month_part", "extract_year", "extract_epoch",
           "date_trunc", "strftime", "last_day", "sum", "avg", "min", "max", "count", "stddev", "bool_and", "string_agg", "win_sum", "win_lag", "win_avg", "win_min", "cast_int", "cast_bigint", "cast_double",
           "cast_dec", "cast_text", "cast_date", "cast_ts", "cast_bool", "try_cast_int", "dayname", "epoch", "bit_count", "reverse", "hash", "median", "mode", "first", "list_len"}
Binary == {"+", "-", "*", "/", "//", "%", "=", "<>", "<", ">=", "and", "or", "concat_op", "concat", "coalesce", "nullif", "ifnull", "greatest", "least", "power", "like",
           "datediff_day", "date_add", "date_sub", "age", "strpos", "left", "repeat", "starts_with", "is_distinct", "in2", "mod_fn", "atan2", "round_n", "date_part_arg", "xor_fn", "bitand", "shiftl"}
Ternary == {"case", "between", "if", "substring", "replace", "lpad", "coalesce3", "case_null", "clamp"}
Conds == {[k |-> "col", v |-> "b"], [k |-> "lit", v |-> "true"]}

T1u == {[f |-> f, args |-> <<a>>] : f \in Unary, a \in Atoms}
T1b == {[f |-> f, args |-> <<a, b>>] : f \in Binary, a \in Atoms, b \in Atoms}
T1t == {[f |-> f, args |-> <<a, b, c>>] : f \in Ternary, a \in Conds \cup {[k |-> "col", v |-> c] : c \in {"i", "s", "dt", "d"}}, b \in Atoms, c \in Atoms}
\* depth 2: the arguments are depth-1 applications over columns only
Inner == {[k |-> "app", f |-> f, args |-> <<a, b>>] : f \in {"+", "/", "//", "*", "concat_op", "coalesce", "date_add", "=", "-"}, a \in {x \in Atoms : x.k = "col"}, b \in Atoms}
         \cup {[k |-> "app", f |-> f, args |-> <<a>>] : f \in {"sum", "avg", "cast_dec", "cast_double", "length", "year", "date_trunc", "abs", "floor", "neg"}, a \in {x \in Atoms : x.k = "col"}}
T2 == LET ia == RandomSubset(K, Inner)
          ib == RandomSubset(K, Atoms \cup Inner)
      IN {[f |-> f, args |-> <<a, b>>] : f \in Binary, a \in ia, b \in ib} \cup {[f |-> f, args |-> <<a>>] : f \in Unary, a \in ia}

Pool == CASE Focus = "unary" -> T1u
          [] Focus = "binary" -> T1b
          [] Focus = "ternary" -> T1t
          [] OTHER -> T2
VARIABLE t
Init == t \in Pool
Next == UNCHANGED t
Emit == PrintT(ToJson([t |-> t]))
=============================================================================
