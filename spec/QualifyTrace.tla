---------------------------- MODULE QualifyTrace ----------------------------
(* Acceptor for recorded runs of qualify() (code -> spec).  The driver projects *)
(* the returned tree with its own traversal (not sqlglot's Scope): for every    *)
(* column its qualifier and the set of names visible at that point, for every   *)
(* table whether it has an alias, the projections of every SELECT that had a    *)
(* star, the output names, and the structure of qualify(qualify(x)).            *)
EXTENDS Naturals, Sequences, FiniteSets, TLC, Json, IOUtils

VARIABLE i
Cases == JsonDeserialize(IOEnv.CASES)
Range(s) == { s[k] : k \in DOMAIN s }

\* expected to be rejected (unknown / ambiguous / not visible): qualify must raise OptimizeError
Rejected(c) == c.expect = "raise" => c.outcome = "OptimizeError"
Accepted(c) == c.expect = "ok" => c.outcome \in {"ok", "OptimizeError"}       \* the property allows a refusal, never a wrong answer
Returned(c) == c.outcome = "ok"
TablesAliased(c) == Returned(c) => \A k \in DOMAIN c.tables : c.tables[k].aliased
ColumnsResolved(c) == Returned(c) => \A k \in DOMAIN c.cols : LET x == c.cols[k] IN
                         \/ (x.qual # "" /\ x.qual \in Range(x.visible))
                         \/ (x.qual = "" /\ x.outref)               \* a reference to an output name where SQL permits it
StarsExpanded(c) == Returned(c) => \A k \in DOMAIN c.stars : c.stars[k].got = c.stars[k].want
NamesKept(c) == Returned(c) => c.names_out = c.names_want
Idem(c) == Returned(c) => c.idempotent
Clauses(c) == << <<"Rejected", Rejected(c)>>, <<"TablesAliased", TablesAliased(c)>>, <<"ColumnsResolved", ColumnsResolved(c)>>,
                 <<"StarsExpanded", StarsExpanded(c)>>, <<"NamesKept", NamesKept(c)>>, <<"Idempotent", Idem(c)>> >>
FirstBad(c) == LET bad == SelectSeq(Clauses(c), LAMBDA p : ~p[2]) IN IF bad = <<>> THEN "OK" ELSE bad[1][1]
\* identifier normalisation cases
NormOK(c) == c.twice = c.once /\ (c.case_sensitive => c.once = c.original)

Init == i \in 1..Len(Cases)
Next == UNCHANGED i
Verdict == PrintT(<<"V", Cases[i].id, IF Cases[i].kind = "qualify" THEN FirstBad(Cases[i]) ELSE (IF NormOK(Cases[i]) THEN "OK" ELSE "Normalize")>>)
=============================================================================
