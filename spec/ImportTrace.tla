----------------------------- MODULE ImportTrace -----------------------------
(* Acceptor for recorded multi-threaded first-use runs of sqlglot (code -> spec).   *)
(* A run is the global sequence of hook events (SQLGLOT_VERIF=1) and of state       *)
(* snapshots taken at preemption points: [t, e, m, regs, pubs] where regs = the      *)
(* watched dialect keys present in _Dialect._classes and pubs = the watched         *)
(* generator classes present in _DISPATCH_CACHE at that moment.  The clauses are     *)
(* LazyImport.tla's invariants restated over what can be observed:                   *)
(*   MutexPkg / MutexOpt   the package locks exclude (re-entrantly)                  *)
(*   ExactlyOnce           a dialect class body / module is executed at most once    *)
(*   RegisteredImpliesBuilt  a key is visible in the registry only after class_built *)
(*   PublishedImpliesFull    a dispatch table is visible only after dispatch_built   *)
(*   NoDeadlock            every thread finished                                     *)
(*   ResultsEqual          every call returned what it returns alone                 *)
EXTENDS Naturals, Sequences, FiniteSets, TLC, Json, IOUtils

VARIABLE i
Cases == JsonDeserialize(IOEnv.CASES)
Range(s) == { s[k] : k \in DOMAIN s }
None == "none"

St0 == [lo |-> None, ln |-> 0, oo |-> None, on |-> 0, built |-> {}, dbuilt |-> {}, begun |-> {}, bad |-> "OK"]
Flag(st, ok, name) == IF st.bad = "OK" /\ ~ok THEN [st EXCEPT !.bad = name] ELSE st

Step(st0, r) ==
    LET st1 == Flag(st0, Range(r.regs) \subseteq st0.built, "RegisteredImpliesBuilt")
        st  == Flag(st1, Range(r.pubs) \subseteq st1.dbuilt, "PublishedImpliesFull")
    IN CASE r.e = "attr_locked" -> [Flag(st, st.lo \in {None, r.t}, "MutexPkg") EXCEPT !.lo = r.t, !.ln = IF st.lo = r.t THEN st.ln + 1 ELSE 1]
         [] r.e = "attr_unlocking" -> [Flag(st, st.lo = r.t, "MutexPkg") EXCEPT !.lo = IF st.ln <= 1 THEN None ELSE st.lo, !.ln = IF st.ln <= 1 THEN 0 ELSE st.ln - 1]
         [] r.e = "opt_locked"  -> [Flag(st, st.oo \in {None, r.t}, "MutexOpt") EXCEPT !.oo = r.t, !.on = IF st.oo = r.t THEN st.on + 1 ELSE 1]
         [] r.e = "opt_publish" -> [Flag(st, st.oo = r.t, "MutexOpt") EXCEPT !.oo = IF st.on <= 1 THEN None ELSE st.oo, !.on = IF st.on <= 1 THEN 0 ELSE st.on - 1]
         [] r.e = "class_begin" -> [Flag(st, r.m \notin st.begun, "ExactlyOnce") EXCEPT !.begun = @ \cup {r.m}]
         [] r.e = "class_built" -> [st EXCEPT !.built = @ \cup {r.m}]
         [] r.e = "dispatch_built" -> [st EXCEPT !.dbuilt = @ \cup {r.m}]
         [] OTHER -> st

RECURSIVE Fold(_, _, _)
Fold(evs, k, st) == IF k > Len(evs) THEN st ELSE Fold(evs, k + 1, Step(st, evs[k]))

Judge(c) == LET st == Fold(c.events, 1, St0) IN
            IF c.deadlock THEN "NoDeadlock"
            ELSE IF st.bad # "OK" THEN st.bad
            ELSE IF ~c.same THEN "ResultsEqual"
            ELSE "OK"

Init == i \in 1..Len(Cases)
Next == UNCHANGED i
Verdict == PrintT(<<"V", Cases[i].id, Judge(Cases[i])>>)
=============================================================================
