------------------------------ MODULE QueryGen ------------------------------
(* Generator specification for relational queries and small databases.       *)
(* A query is generated as a *skeleton*: one choice per clause-level feature; *)
(* lib/relq.build turns a skeleton into a query term (the structure          *)
(* RelSem.tla evaluates) and into SQL.  The product of the choices is the    *)
(* bounded query space; Mode "all" enumerates a factor completely, "sample"   *)
(* draws a pseudo-random subset (reproducible through TLC's -seed).           *)
EXTENDS Integers, Sequences, FiniteSets, TLC, Json, Randomization

CONSTANTS K, Focus

Srcs   == {"table", "derived", "cte", "cte2", "derived_group", "derived_limit", "derived_distinct", "derived_union", "derived_expr"}
J1s    == {"none", "inner", "left", "right", "full", "cross"}
J1Srcs == {"table", "derived", "derived_where", "distinct_key", "group_key", "agg_row", "limit1", "cte2"}
On1s   == {"eq", "eq_pred", "eq_lpred", "eq2"}
J2s    == {"none", "inner", "left", "full"}
Wheres == {"none", "l", "l_isnull", "r", "r_isnull", "lr", "or", "and_lr", "z", "in_sub", "not_in_sub", "in_sub_corr",
           "exists_corr", "not_exists_corr", "exists_corr_neq", "exists_corr_or", "scalar_corr", "scalar_corr_count", "scalar_corr_count_expr", "scalar_uncorr", "false"}
Projs  == {"cols", "left_only", "expr", "agg_group", "agg_global", "neg", "neg_agg", "sub_count"}
J3s    == {"none", "full", "inner"}
Havings == {"none", "count", "sum"}
Limits == {"none", "1", "2"}
SetOps == {"none", "union", "union_all", "intersect", "intersect_all", "except", "except_all"}

All == [src : Srcs, inner_where : BOOLEAN, j1 : J1s, j1src : J1Srcs, on1 : On1s, j2 : J2s, j3 : J3s, where : Wheres, proj : Projs,
        having : Havings, distinct : BOOLEAN, limit : Limits, setop : SetOps]

\* focused sub-spaces: the factors a group of optimizer guards depends on are enumerated completely, the rest is fixed
Joins == [src : {"table", "derived"}, inner_where : {FALSE}, j1 : J1s \ {"none"}, j1src : {"table", "derived", "derived_where"}, on1 : On1s,
          j2 : J2s, j3 : {"none"}, where : {"none", "l", "l_isnull", "r", "r_isnull", "lr", "or", "and_lr", "z"}, proj : {"cols", "left_only"},
          having : {"none"}, distinct : {FALSE}, limit : {"none"}, setop : {"none"}]
Subq  == [src : {"table", "derived"}, inner_where : {FALSE}, j1 : {"none", "inner", "left"}, j1src : {"table"}, on1 : {"eq"}, j2 : {"none"}, j3 : {"none"},
          where : Wheres, proj : Projs, having : {"none", "count"}, distinct : BOOLEAN, limit : {"none", "1"}, setop : {"none"}]
Elim  == [src : Srcs \ {"cte2"}, inner_where : BOOLEAN, j1 : {"left", "inner", "cross"}, j1src : J1Srcs \ {"cte2"}, on1 : {"eq", "eq_pred"},
          j2 : {"none"}, j3 : {"none"}, where : {"none", "l", "r"}, proj : {"left_only", "cols", "agg_global"}, having : {"none"}, distinct : BOOLEAN,
          limit : {"none"}, setop : {"none"}]
Sets  == [src : {"table", "derived", "derived_union", "cte"}, inner_where : {FALSE}, j1 : {"none", "inner"}, j1src : {"table"}, on1 : {"eq"},
          j2 : {"none"}, j3 : {"none"}, where : {"none", "l", "in_sub"}, proj : {"cols", "left_only", "agg_group"}, having : {"none"}, distinct : BOOLEAN,
          limit : {"none"}, setop : SetOps]

\* the transpilation fragment (C02): ordering with and without explicit NULLS, LIMIT/OFFSET, scalar expressions whose meaning
\* differs between engines, and the DuckDB-only constructs that have to be rewritten for SQLite
TExprs == {"none", "div_int", "div_lit", "div_mixed", "div_zero", "div_chain", "div_chain2", "mod", "concat", "concat_prec", "ifnull", "ifnull2", "coalesce", "coalesce2", "count_win", "nullif",
           "case", "paren_sub", "paren_mul", "neg", "cmp_null", "not_in", "between", "abs", "cast"}
Transpile == [expr : TExprs, join : {"none", "inner", "left"}, where : {"none", "l", "isnull"}, distinct : BOOLEAN,
              special : {"none", "qualify", "qualify2", "distinct_on", "semi", "anti"},
              ocol : {"none", "a", "b", "v", "e"}, odir : {"asc", "desc"}, onulls : {"none", "first", "last"},
              limit : {"none", "1", "2"}, offset : {"none", "1"}]

TExpr == [expr : TExprs, join : {"none", "left"}, where : {"none"}, distinct : {FALSE}, special : {"none"},
          ocol : {"none", "v", "e"}, odir : {"asc", "desc"}, onulls : {"none", "first", "last"}, limit : {"none", "2"}, offset : {"none"}]
TOrder == [expr : {"none", "div_int", "coalesce"}, join : {"none", "inner", "left"}, where : {"none", "l", "isnull"}, distinct : BOOLEAN,
           special : {"none", "qualify", "qualify2", "distinct_on", "semi", "anti"}, ocol : {"a", "b"}, odir : {"asc", "desc"},
           onulls : {"none", "first", "last"}, limit : {"none", "1", "2"}, offset : {"none", "1"}]

Joins3 == [src : {"table", "derived"}, inner_where : {FALSE}, j1 : {"full", "inner", "left"}, j1src : {"table", "derived"}, on1 : {"eq"},
           j2 : {"inner", "full", "left"}, j3 : {"full", "inner"}, where : {"none", "l", "r", "z", "lr"}, proj : {"cols", "left_only"},
           having : {"none"}, distinct : {FALSE}, limit : {"none"}, setop : {"none"}]
Arith == [src : {"derived_expr", "derived"}, inner_where : BOOLEAN, j1 : {"none", "inner", "left"}, j1src : {"table", "derived"}, on1 : {"eq", "eq2"},
          j2 : {"none"}, j3 : {"none"}, where : {"none", "l", "scalar_corr_count_expr", "exists_corr_or"}, proj : {"neg", "neg_agg", "sub_count", "cols", "expr"},
          having : {"none"}, distinct : BOOLEAN, limit : {"none"}, setop : {"none"}]

Pool == CASE Focus = "joins3" -> Joins3 [] Focus = "arith" -> Arith [] Focus = "transpile" -> RandomSubset(K, Transpile) [] Focus = "t_expr" -> TExpr [] Focus = "t_order" -> TOrder [] Focus = "joins" -> Joins [] Focus = "subq" -> Subq [] Focus = "elim" -> Elim [] Focus = "sets" -> Sets
          [] Focus = "sample" -> RandomSubset(K, All)

VARIABLES sk, db
Init == sk \in Pool /\ db = <<>>
Next == UNCHANGED <<sk, db>>
Emit == PrintT(ToJson([sk |-> sk]))

(* small databases: rows over {NULL, 1, 2, 3}, up to 3 rows per table, sampled *)
Vals == {<<"N", 0>>, <<"I", 1>>, <<"I", 2>>, <<"I", 3>>}
RowsOf == Vals \X Vals
TablesOf == {<<>>} \cup { <<r>> : r \in RowsOf } \cup { <<r, s>> : r \in RowsOf, s \in RowsOf } \cup
            { <<r, s, r>> : r \in RandomSubset(4, RowsOf), s \in RandomSubset(4, RowsOf) }
DInit == db \in RandomSubset(K, [t : TablesOf, u : TablesOf, e : TablesOf]) /\ sk = <<>>
DNext == UNCHANGED <<sk, db>>
DEmit == PrintT(ToJson([db |-> db]))
=============================================================================
