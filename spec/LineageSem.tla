---------------------------- MODULE LineageSem ----------------------------
(***************************************************************************)
(* What "the base columns that syntactically flow into an output column"   *)
(* means, over a DAG of view definitions.                                  *)
(*                                                                         *)
(* A definition is either                                                  *)
(*   select : from  = sequence of [src, ren]   (ren: column-list alias,    *)
(*                     the source's columns are renamed positionally)      *)
(*            proj  = sequence of items: an expression item [name, refs,   *)
(*                     sub] reading columns <<f, c>> (c-th column of the   *)
(*                     f-th FROM entry) and optionally a scalar subquery   *)
(*                     over one column of another source; "star"; or       *)
(*                     "qstar" over FROM entry f                           *)
(*   union  : branches = sequence of [src, mode], combined by position     *)
(* A source is a base table or an earlier definition.  How a definition is *)
(* written down (derived table, CTE, entry of the sources argument, the    *)
(* aliases used) is deliberately NOT part of the term: Out cannot depend   *)
(* on it, which is the invariance half of the property.                    *)
(*                                                                         *)
(* Two formulations are given and TLC checks that they agree on every      *)
(* generated DAG (Lineage.tla, GraphAgrees): the denotational Out and the  *)
(* dependency graph + reachability, which is the shape of the Node graph   *)
(* that sqlglot.lineage builds.                                            *)
(***************************************************************************)
EXTENDS Naturals, Sequences, FiniteSets, TLC

CONSTANT Variant      \* "code" | negative controls: "union_by_name", "star_first_only", "sub_ignored"

Tables == [t |-> <<"a", "b">>, u |-> <<"b", "a">>, v |-> <<"a", "c">>]
TableNames == {"t", "u", "v"}
Ren == <<"p", "q", "r", "s", "w", "y", "z", "k">>
MaxArity == Len(Ren)

RECURSIVE Cat(_)
Cat(ss) == IF ss = <<>> THEN <<>> ELSE Head(ss) \o Cat(Tail(ss))
Range(s) == { s[k] : k \in DOMAIN s }

TableOut(n) == [j \in 1..Len(Tables[n]) |-> [name |-> Tables[n][j], lv |-> {<<n, Tables[n][j]>>}]]
Renamed(o) == [j \in 1..Len(o) |-> [name |-> Ren[j], lv |-> o[j].lv]]

RECURSIVE Out(_, _)
SrcOut(defs, s) == IF s.k = "t" THEN TableOut(s.name) ELSE Out(defs, s.i)
FromOut(defs, fr) == IF fr.ren THEN Renamed(SrcOut(defs, fr.src)) ELSE SrcOut(defs, fr.src)
SubLv(defs, it) == IF it.sub.on /\ Variant # "sub_ignored" THEN SrcOut(defs, it.sub.src)[it.sub.c].lv ELSE {}
ItemOut(defs, d, it) ==
    CASE it.k = "star"  -> IF Variant = "star_first_only" THEN FromOut(defs, d.from[1])
                           ELSE Cat([f \in 1..Len(d.from) |-> FromOut(defs, d.from[f])])
      [] it.k = "qstar" -> FromOut(defs, d.from[it.f])
      [] OTHER          -> << [name |-> it.name,
                               lv |-> UNION { FromOut(defs, d.from[it.refs[r][1]])[it.refs[r][2]].lv : r \in DOMAIN it.refs } \cup SubLv(defs, it)] >>
SelectOut(defs, d) == Cat([k \in 1..Len(d.proj) |-> ItemOut(defs, d, d.proj[k])])
Pos(o, name, dflt) == IF \E j \in DOMAIN o : o[j].name = name THEN CHOOSE j \in DOMAIN o : o[j].name = name ELSE dflt
UnionOut(defs, d) ==
    LET bo == [k \in 1..Len(d.branches) |-> SrcOut(defs, d.branches[k].src)]
    IN [j \in 1..Len(bo[1]) |->
          [name |-> bo[1][j].name,
           lv |-> UNION { bo[k][IF Variant = "union_by_name" THEN Pos(bo[k], bo[1][j].name, j) ELSE j].lv : k \in 1..Len(bo) }]]
Out(defs, i) == IF defs[i].kind = "select" THEN SelectOut(defs, defs[i]) ELSE UnionOut(defs, defs[i])

(* ------------------- dependency graph + reachability ------------------- *)
TNode(n, c) == [k |-> "t", name |-> n, i |-> 0, c |-> c]
VNode(i, c) == [k |-> "v", name |-> "", i |-> i, c |-> c]
NodeOf(s, c) == IF s.k = "t" THEN TNode(s.name, c) ELSE VNode(s.i, c)
Arity(defs, s) == Len(SrcOut(defs, s))
FromNodes(defs, fr) == [c \in 1..Arity(defs, fr.src) |-> {NodeOf(fr.src, c)}]
ItemDeps(defs, d, it) ==
    CASE it.k = "star"  -> Cat([f \in 1..Len(d.from) |-> FromNodes(defs, d.from[f])])
      [] it.k = "qstar" -> FromNodes(defs, d.from[it.f])
      [] OTHER          -> << { NodeOf(d.from[it.refs[r][1]].src, it.refs[r][2]) : r \in DOMAIN it.refs }
                              \cup (IF it.sub.on THEN {NodeOf(it.sub.src, it.sub.c)} ELSE {}) >>
Deps(defs, i) ==
    IF defs[i].kind = "select" THEN Cat([k \in 1..Len(defs[i].proj) |-> ItemDeps(defs, defs[i], defs[i].proj[k])])
    ELSE [j \in 1..Arity(defs, defs[i].branches[1].src) |-> { NodeOf(defs[i].branches[k].src, j) : k \in 1..Len(defs[i].branches) }]
RECURSIVE Reach(_, _)
Reach(defs, n) == IF n.k = "t" THEN {<<n.name, Tables[n.name][n.c]>>}
                  ELSE UNION { Reach(defs, m) : m \in Deps(defs, n.i)[n.c] }

BaseColumns == UNION { { <<n, Tables[n][j]>> : j \in 1..Len(Tables[n]) } : n \in TableNames }
NamesOf(o) == [j \in 1..Len(o) |-> o[j].name]
Distinct(seq) == \A a, b \in DOMAIN seq : a # b => seq[a] # seq[b]
=============================================================================
