------------------------------- MODULE MCLazy -------------------------------
(* Model-checking instances of LazyImport: two dialect modules (d2's body imports d1), *)
(* the optimizer exports, every operation for 2 threads, a reduced set for 3 threads.  *)
EXTENDS LazyImport
DepsC == [x \in {"d1", "d2"} |-> IF x = "d2" THEN {"d1"} ELSE {}]
AllOps == {[k |-> kk, m |-> mm] : kk \in {"attr", "get", "gen", "direct"}, mm \in {"d1", "d2"}} \cup {[k |-> "opt", m |-> ""], [k |-> "optdirect", m |-> ""]}
Ops2 == [t \in {"A", "B"} |-> AllOps]
Small == {[k |-> kk, m |-> "d2"] : kk \in {"attr", "get", "gen"}} \cup {[k |-> "opt", m |-> ""], [k |-> "optdirect", m |-> ""]}
Ops3 == [t \in {"A", "B", "C"} |-> Small]
=============================================================================
