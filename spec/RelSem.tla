------------------------------- MODULE RelSem -------------------------------
(***************************************************************************)
(* Reference semantics of the relational SQL fragment that the Python      *)
(* executor implements, the optimizer must preserve and transpilation must *)
(* carry across engines.  This is the specification: bags of rows, three-  *)
(* valued logic, NULL-aware aggregates, outer joins, set operations,       *)
(* (correlated) subqueries.                                                *)
(*                                                                         *)
(* Values: <<"N",0>> NULL, <<"B",0|1>>, <<"I",n>>, <<"S",text>>,            *)
(*         <<"F",text>> (a non-integral number, kept as normalised text).  *)
(* A relation is [cols |-> seq of qualified names, rows |-> seq of rows].  *)
(* Query terms are the JSON trees lib/relq.py builds (see there).          *)
(***************************************************************************)
EXTENDS Integers, Sequences, FiniteSets, TLC

NULL   == <<"N", 0>>
TRUE3  == <<"B", 1>>
FALSE3 == <<"B", 0>>
ERR    == <<"E", 0>>
B(x)   == IF x THEN TRUE3 ELSE FALSE3
I(n)   == <<"I", n>>
IsNull(v) == v[1] = "N"
IsErr(v)  == v[1] = "E"

And3(a, b) == IF IsErr(a) \/ IsErr(b) THEN ERR ELSE IF a = FALSE3 \/ b = FALSE3 THEN FALSE3
              ELSE IF IsNull(a) \/ IsNull(b) THEN NULL ELSE TRUE3
Or3(a, b)  == IF IsErr(a) \/ IsErr(b) THEN ERR ELSE IF a = TRUE3 \/ b = TRUE3 THEN TRUE3
              ELSE IF IsNull(a) \/ IsNull(b) THEN NULL ELSE FALSE3
Not3(a)    == IF IsErr(a) THEN ERR ELSE IF IsNull(a) THEN NULL ELSE B(a[2] = 0)
Cmp(op, a, b) ==
    IF IsErr(a) \/ IsErr(b) THEN ERR ELSE IF IsNull(a) \/ IsNull(b) THEN NULL
    ELSE IF a[1] # b[1] \/ a[1] \notin {"I", "B"} THEN (IF op = "eq" THEN B(a = b) ELSE IF op = "neq" THEN B(a # b) ELSE ERR)
    ELSE CASE op = "eq" -> B(a[2] = b[2]) [] op = "neq" -> B(a[2] # b[2]) [] op = "lt" -> B(a[2] < b[2])
           [] op = "lte" -> B(a[2] <= b[2]) [] op = "gt" -> B(a[2] > b[2]) [] op = "gte" -> B(a[2] >= b[2])
Arith(op, a, b) ==
    IF IsErr(a) \/ IsErr(b) THEN ERR ELSE IF IsNull(a) \/ IsNull(b) THEN NULL
    ELSE IF a[1] # "I" \/ b[1] # "I" THEN ERR
    ELSE CASE op = "add" -> I(a[2] + b[2]) [] op = "sub" -> I(a[2] - b[2]) [] op = "mul" -> I(a[2] * b[2])

(* ------------------------------ bags ------------------------------ *)
Count(s, x) == Cardinality({ k \in DOMAIN s : s[k] = x })
BagEq(r1, r2) == Len(r1) = Len(r2) /\ \A k \in DOMAIN r1 : Count(r1, r1[k]) = Count(r2, r1[k])
Range(s) == { s[k] : k \in DOMAIN s }
RECURSIVE DistinctSeq(_)
DistinctSeq(s) == IF s = <<>> THEN <<>>
                  ELSE LET r == DistinctSeq(SubSeq(s, 1, Len(s) - 1)) IN
                       IF \E k \in DOMAIN r : r[k] = s[Len(s)] THEN r ELSE Append(r, s[Len(s)])
RECURSIVE Flat(_)
Flat(ss) == IF ss = <<>> THEN <<>> ELSE Head(ss) \o Flat(Tail(ss))
NullRow(n) == [k \in 1..n |-> NULL]

(* ------------------------- environments ------------------------- *)
\* env: sequence of frames [cols, vals], innermost last (correlated subqueries see the outer frames)
RECURSIVE Lookup(_, _)
Lookup(env, name) ==
    IF env = <<>> THEN ERR
    ELSE LET f == env[Len(env)] IN
         IF \E k \in DOMAIN f.cols : f.cols[k] = name
         THEN f.vals[CHOOSE k \in DOMAIN f.cols : f.cols[k] = name]
         ELSE Lookup(SubSeq(env, 1, Len(env) - 1), name)

RECURSIVE Ev(_, _, _, _)       \* Ev(expression, env, group rows (for aggregates), db)
RECURSIVE Sem(_, _, _)         \* Sem(query, outer env, db) -> relation
RECURSIVE EvList(_, _, _, _, _)
RECURSIVE EvCase(_, _, _, _, _, _)
RECURSIVE Coal(_, _, _, _, _)
RECURSIVE SumSeq(_)
SumSeq(s) == IF s = <<>> THEN 0 ELSE Head(s)[2] + SumSeq(Tail(s))
MinV(s) == CHOOSE x \in Range(s) : \A y \in Range(s) : x[2] <= y[2]
MaxV(s) == CHOOSE x \in Range(s) : \A y \in Range(s) : x[2] >= y[2]

\* the frame of the innermost query block with its values replaced by those of row r
WithRow(env, r) == [env EXCEPT ![Len(env)] = [cols |-> env[Len(env)].cols, vals |-> r]]

Agg(fn, arg, env, grp, db) ==
    IF fn = "count_star" THEN I(Len(grp))
    ELSE LET vs == [k \in DOMAIN grp |-> Ev(arg, WithRow(env, grp[k]), <<grp[k]>>, db)]
             nn == SelectSeq(vs, LAMBDA v : ~IsNull(v))
         IN IF \E k \in DOMAIN vs : IsErr(vs[k]) THEN ERR
            ELSE CASE fn = "count" -> I(Len(nn))
                   [] fn = "count_distinct" -> I(Cardinality(Range(nn)))
                   [] fn = "sum" -> IF nn = <<>> THEN NULL ELSE I(SumSeq(nn))
                   [] fn = "min" -> IF nn = <<>> THEN NULL ELSE MinV(nn)
                   [] fn = "max" -> IF nn = <<>> THEN NULL ELSE MaxV(nn)

Ev(e, env, grp, db) ==
    LET t == e[1] IN
    CASE t = "col"  -> Lookup(env, e[2])
      [] t = "int"  -> I(e[2])
      [] t = "bool" -> B(e[2] = 1)
      [] t = "str"  -> <<"S", e[2]>>
      [] t = "null" -> NULL
      [] t = "paren" -> Ev(e[2], env, grp, db)
      [] t = "and"  -> And3(Ev(e[2], env, grp, db), Ev(e[3], env, grp, db))
      [] t = "or"   -> Or3(Ev(e[2], env, grp, db), Ev(e[3], env, grp, db))
      [] t = "not"  -> Not3(Ev(e[2], env, grp, db))
      [] t \in {"eq", "neq", "lt", "lte", "gt", "gte"} -> Cmp(t, Ev(e[2], env, grp, db), Ev(e[3], env, grp, db))
      [] t \in {"add", "sub", "mul"} -> Arith(t, Ev(e[2], env, grp, db), Ev(e[3], env, grp, db))
      [] t = "neg" -> Arith("sub", I(0), Ev(e[2], env, grp, db))
      [] t = "isnull" -> LET v == Ev(e[2], env, grp, db) IN IF IsErr(v) THEN ERR ELSE B(IsNull(v))
      [] t = "between" -> And3(Cmp("gte", Ev(e[2], env, grp, db), Ev(e[3], env, grp, db)), Cmp("lte", Ev(e[2], env, grp, db), Ev(e[4], env, grp, db)))
      [] t = "in"  -> EvList(Ev(e[2], env, grp, db), [k \in DOMAIN e[3] |-> Ev(e[3][k], env, grp, db)], 1, env, db)
      [] t = "coalesce" -> Coal(e[2], 1, env, grp, db)
      [] t = "case" -> EvCase(e[2], e[3], 1, env, grp, db)
      [] t = "agg" -> Agg(e[2], e[3], env, grp, db)
      \* subqueries: evaluated with the current frames as outer environment
      [] t = "in_sub" -> LET r == Sem(e[3], env, db) IN
                         EvList(Ev(e[2], env, grp, db), [k \in DOMAIN r.rows |-> r.rows[k][1]], 1, env, db)
      [] t = "exists" -> B(Sem(e[2], env, db).rows # <<>>)
      [] t = "scalar_sub" -> LET r == Sem(e[2], env, db) IN
                             IF r.rows = <<>> THEN NULL ELSE IF Len(r.rows) > 1 THEN ERR ELSE r.rows[1][1]
      [] OTHER -> ERR
EvList(x, vs, j, env, db) == IF j > Len(vs) THEN FALSE3 ELSE Or3(Cmp("eq", x, vs[j]), EvList(x, vs, j + 1, env, db))
Coal(xs, j, env, grp, db) == IF j > Len(xs) THEN NULL
                             ELSE LET v == Ev(xs[j], env, grp, db) IN IF IsNull(v) THEN Coal(xs, j + 1, env, grp, db) ELSE v
EvCase(whens, els, j, env, grp, db) ==
    IF j > Len(whens) THEN (IF els[1] = "none" THEN NULL ELSE Ev(els, env, grp, db))
    ELSE LET c == Ev(whens[j][1], env, grp, db) IN
         IF IsErr(c) THEN ERR ELSE IF c = TRUE3 THEN Ev(whens[j][2], env, grp, db) ELSE EvCase(whens, els, j + 1, env, grp, db)

(* ------------------------------ FROM / JOIN ------------------------------ *)
Qual(alias, cols) == [k \in DOMAIN cols |-> alias \o "." \o cols[k]]

\* source: ["table", name, alias] | ["sub", query, alias]
SourceRel(src, env, db) ==
    IF src[1] = "table"
    THEN [cols |-> Qual(src[3], db.schema[src[2]]), rows |-> db.tables[src[2]]]
    ELSE LET r == Sem(src[2], env, db) IN [cols |-> Qual(src[3], r.names), rows |-> r.rows]

Pred(e, env, cols, row, db) == Ev(e, Append(env, [cols |-> cols, vals |-> row]), <<row>>, db) = TRUE3

JoinRel(l, r, kind, on, env, db) ==
    LET cols == l.cols \o r.cols
        ok(a, b) == kind = "cross" \/ Pred(on, env, cols, a \o b, db)
        inner == Flat([a \in DOMAIN l.rows |-> SelectSeq([b \in DOMAIN r.rows |-> l.rows[a] \o r.rows[b]],
                                                          LAMBDA row : kind = "cross" \/ Pred(on, env, cols, row, db))])
        lonly == SelectSeq([a \in DOMAIN l.rows |-> l.rows[a]], LAMBDA x : ~\E b \in DOMAIN r.rows : ok(x, r.rows[b]))
        ronly == SelectSeq([b \in DOMAIN r.rows |-> r.rows[b]], LAMBDA y : ~\E a \in DOMAIN l.rows : ok(l.rows[a], y))
        lext == [k \in DOMAIN lonly |-> lonly[k] \o NullRow(Len(r.cols))]
        rext == [k \in DOMAIN ronly |-> NullRow(Len(l.cols)) \o ronly[k]]
    IN [cols |-> cols,
        rows |-> CASE kind \in {"inner", "cross"} -> inner
                   [] kind = "left"  -> inner \o lext
                   [] kind = "right" -> inner \o rext
                   [] kind = "full"  -> inner \o lext \o rext]

RECURSIVE JoinAll(_, _, _, _, _)
JoinAll(acc, joins, j, env, db) ==
    IF j > Len(joins) THEN acc
    ELSE JoinAll(JoinRel(acc, SourceRel(joins[j][2], env, db), joins[j][1], joins[j][3], env, db), joins, j + 1, env, db)

(* ------------------------------ SELECT block ------------------------------ *)
\* total preorder used by ORDER BY: NULL position is explicit in every order item of the fragment
Less(a, b, desc, nullsFirst) ==
    IF IsNull(a) /\ IsNull(b) THEN FALSE
    ELSE IF IsNull(a) THEN nullsFirst ELSE IF IsNull(b) THEN ~nullsFirst
    ELSE IF desc THEN a[2] > b[2] ELSE a[2] < b[2]
RECURSIVE KeyLess(_, _, _, _)
KeyLess(ka, kb, items, j) ==
    IF j > Len(items) THEN FALSE
    ELSE IF Less(ka[j], kb[j], items[j][2] = "desc", items[j][3] = "first") THEN TRUE
    ELSE IF Less(kb[j], ka[j], items[j][2] = "desc", items[j][3] = "first") THEN FALSE
    ELSE KeyLess(ka, kb, items, j + 1)
\* stable insertion sort of indices by key
RECURSIVE SortIdx(_, _, _)
SortIdx(keys, items, n) ==
    IF n = 0 THEN <<>>
    ELSE LET s == SortIdx(keys, items, n - 1)
             pos == Cardinality({ k \in DOMAIN s : ~KeyLess(keys[n], keys[s[k]], items, 1) })
         IN SubSeq(s, 1, pos) \o <<n>> \o SubSeq(s, pos + 1, Len(s))

HasAgg(q) == q.group # <<>> \/ q.aggregated

SelectSem(q, env, db) ==
    LET base == JoinAll(SourceRel(q.from, env, db), q.joins, 1, env, db)
        cols == base.cols
        fr(row) == Append(env, [cols |-> cols, vals |-> row])
        filtered == IF q.where[1] = "none" THEN base.rows
                    ELSE SelectSeq(base.rows, LAMBDA row : Ev(q.where, fr(row), <<row>>, db) = TRUE3)
        \* groups: sequences of rows; one global group when aggregated without GROUP BY
        keyOf(row) == [k \in DOMAIN q.group |-> Ev(q.group[k], fr(row), <<row>>, db)]
        gkeys == DistinctSeq([k \in DOMAIN filtered |-> keyOf(filtered[k])])
        groups == IF ~HasAgg(q) THEN [k \in DOMAIN filtered |-> <<filtered[k]>>]
                  ELSE IF q.group = <<>> THEN << filtered >>
                  ELSE [g \in DOMAIN gkeys |-> SelectSeq(filtered, LAMBDA row : keyOf(row) = gkeys[g])]
        rep(g) == IF g = <<>> THEN NullRow(Len(cols)) ELSE g[1]
        kept == IF q.having[1] = "none" THEN groups
                ELSE SelectSeq(groups, LAMBDA g : Ev(q.having, fr(rep(g)), g, db) = TRUE3)
        out == [k \in DOMAIN kept |-> [p \in DOMAIN q.proj |-> Ev(q.proj[p][1], fr(rep(kept[k])), kept[k], db)]]
        okeys == [k \in DOMAIN kept |-> [o \in DOMAIN q.order |-> Ev(q.order[o][1], fr(rep(kept[k])), kept[k], db)]]
        \* DISTINCT keeps first occurrences (order keys of the fragment are projected columns, so this is sound)
        didx == IF q.distinct = 0 THEN [k \in DOMAIN out |-> k]
                ELSE SelectSeq([k \in DOMAIN out |-> k], LAMBDA k : ~\E j \in 1..(k - 1) : out[j] = out[k])
        out1 == [k \in DOMAIN didx |-> out[didx[k]]]
        keys1 == [k \in DOMAIN didx |-> okeys[didx[k]]]
        sidx == IF q.order = <<>> THEN [k \in DOMAIN out1 |-> k] ELSE SortIdx(keys1, q.order, Len(out1))
        sorted == [k \in DOMAIN sidx |-> out1[sidx[k]]]
        off == IF q.offset < 0 THEN 0 ELSE q.offset
        lim == IF q.limit < 0 THEN Len(sorted) ELSE q.limit
        a == IF off + 1 > Len(sorted) THEN Len(sorted) + 1 ELSE off + 1
        b == IF off + lim > Len(sorted) THEN Len(sorted) ELSE off + lim
    IN [names |-> [p \in DOMAIN q.proj |-> q.proj[p][2]], rows |-> SubSeq(sorted, a, b)]

(* ------------------------------ set operations ------------------------------ *)
RECURSIVE BagMinus(_, _)
BagMinus(r1, r2) ==     \* EXCEPT ALL: remove one occurrence per row of r2
    IF r2 = <<>> THEN r1
    ELSE LET x == Head(r2)
             ks == { k \in DOMAIN r1 : r1[k] = x }
         IN IF ks = {} THEN BagMinus(r1, Tail(r2))
            ELSE LET k == CHOOSE k \in ks : \A j \in ks : k <= j
                 IN BagMinus(SubSeq(r1, 1, k - 1) \o SubSeq(r1, k + 1, Len(r1)), Tail(r2))
SetOpRows(op, all, r1, r2) ==
    CASE op = "union" -> IF all = 1 THEN r1 \o r2 ELSE DistinctSeq(r1 \o r2)
      [] op = "intersect" -> IF all = 1 THEN BagMinus(r1, BagMinus(r1, r2))
                             ELSE DistinctSeq(SelectSeq(r1, LAMBDA x : \E k \in DOMAIN r2 : r2[k] = x))
      [] op = "except" -> IF all = 1 THEN BagMinus(r1, r2)
                          ELSE DistinctSeq(SelectSeq(r1, LAMBDA x : ~\E k \in DOMAIN r2 : r2[k] = x))

Sem(q, env, db) ==
    IF q.kind = "select" THEN SelectSem(q, env, db)
    ELSE LET a == Sem(q.left, env, db)  b == Sem(q.right, env, db)
         IN [names |-> a.names, rows |-> SetOpRows(q.op, q.all, a.rows, b.rows)]
=============================================================================
