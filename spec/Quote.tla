------------------------------- MODULE Quote -------------------------------
(***************************************************************************)
(* Quoting of string literals / quoted identifiers: the generator's         *)
(* Escape (Generator.escape_str / identifier_sql) against the tokenizer's   *)
(* Lex (TokenizerCore._extract_string), parameterised by the dialect's      *)
(* configuration, which the driver exports from /repo's working tree:       *)
(*   TokEsc   characters the tokenizer treats as escapes inside the literal *)
(*   GenEsc   the character the generator puts before an embedded delimiter *)
(*   GenSeq   the generator maps control characters / backslash to escape   *)
(*            sequences (STRINGS_SUPPORT_ESCAPED_SEQUENCES)                 *)
(*   TokSeq   the tokenizer maps escape sequences back (UNESCAPED_SEQUENCES)*)
(*   Follow   a backslash followed by any other character yields that       *)
(*            character (ESCAPE_FOLLOW_CHARS dialects)                      *)
(* Characters are classes: "q" the delimiter, "o" another quote character,  *)
(* "b" backslash, "n" the letter n, "L" line feed, "a" any other character. *)
(* RoundTrip: lexing  Escape(v) . q . tail  yields v and leaves tail.       *)
(***************************************************************************)
EXTENDS Naturals, Sequences, FiniteSets, TLC, Json

CONSTANTS MaxLen, TokEsc, GenEsc, GenSeq, TokSeq, Follow

Chars == {"q", "o", "b", "n", "L", "a"}
RECURSIVE SeqsOfLen(_)
SeqsOfLen(k) == IF k = 0 THEN {<<>>} ELSE { Append(s, c) : s \in SeqsOfLen(k - 1), c \in Chars }
Values == UNION { SeqsOfLen(k) : k \in 0..MaxLen }

\* generator
GenChar(c) == IF GenSeq /\ c = "b" THEN <<"b", "b">>
              ELSE IF GenSeq /\ c = "L" THEN <<"b", "n">>
              ELSE IF c = "q" THEN <<GenEsc, "q">>
              ELSE <<c>>
RECURSIVE Escape(_)
Escape(v) == IF v = <<>> THEN <<>> ELSE GenChar(Head(v)) \o Escape(Tail(v))

\* tokenizer: s starts right after the opening delimiter. Returns <<text, rest after the closing delimiter>> or <<"unterminated">>
RECURSIVE Lex(_, _)
Lex(s, acc) ==
    IF s = <<>> THEN <<"unterminated">>
    ELSE LET c == s[1]
             d == IF Len(s) > 1 THEN s[2] ELSE ""
             rest2 == SubSeq(s, 3, Len(s))
         IN IF TokSeq /\ c \in TokEsc /\ c = "b" /\ d \in {"b", "n"}
            THEN Lex(rest2, Append(acc, IF d = "n" THEN "L" ELSE "b"))            \* UNESCAPED_SEQUENCES: \n, \\
            ELSE IF c \in TokEsc /\ d # "" /\ (d = "q" \/ d \in TokEsc \/ (Follow /\ c = "b")) /\ (c # "q" \/ c = d)
            THEN (IF d = "q" THEN Lex(rest2, Append(acc, "q"))
                  ELSE IF Follow /\ c = "b" /\ c # d THEN Lex(rest2, Append(acc, d))
                  ELSE Lex(rest2, acc \o <<c, d>>))
            ELSE IF c = "q" THEN <<acc, Tail(s)>>
            ELSE Lex(Tail(s), Append(acc, c))

Tails == {<<>>, <<"a">>, <<"q">>}
RoundTrip(v) == \A t \in Tails : (t # <<"q">> \/ "q" \notin TokEsc) => Lex(Escape(v) \o <<"q">> \o t, <<>>) = <<v, t>>

VARIABLE v
Init == v \in Values
Next == UNCHANGED v
Inv == RoundTrip(v)
\* the driver wants the model's expectation for every value: the escaped text
Emit == PrintT(ToJson([v |-> v, e |-> Escape(v)]))
=============================================================================
