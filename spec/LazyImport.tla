----------------------------- MODULE LazyImport -----------------------------
(***************************************************************************)
(* First use of dialects, generators and optimizer exports from several    *)
(* threads (C19).  One PlusCal label per step between two points where the *)
(* code can be preempted with a different shared state; the labels that    *)
(* have a hook event in sqlglot (SQLGLOT_VERIF=1) carry its name:          *)
(*                                                                         *)
(*   PkgAttr(m)   sqlglot.dialects.__getattr__: attr_wait, attr_locked     *)
(*                (package RLock L taken), import, attr_unlocking (last    *)
(*                step under L), attr_done                                  *)
(*   Import(m)    importlib.import_module: sys.modules fast path, the      *)
(*                per-module import lock ML[m], the module body (imports   *)
(*                of other dialect modules, optionally a package-attribute *)
(*                access = L requested while ML[m] is held), then the      *)
(*                metaclass: class_begin, class_built, class_registered    *)
(*   Get(m)       Dialect.get / __getitem__: lock-free read of the         *)
(*                registry, _try_load (load_begin, load_end) on a miss     *)
(*   Gen(m)       Generator.__init__: dispatch_probe, dispatch_built,      *)
(*                dispatch_published                                       *)
(*   OptAttr      sqlglot.optimizer.__getattr__: opt_wait, opt_locked,     *)
(*                import, opt_publish;  OptDirect = a plain import of the  *)
(*                submodule that bypasses the package lock                 *)
(*                                                                         *)
(* LazyInBody is not chosen by the modeller: the driver measures it on the *)
(* real code (which module bodies ask for the package lock while they are  *)
(* being imported) and instantiates the model with it.                     *)
(***************************************************************************)
EXTENDS Naturals, Sequences, FiniteSets, TLC

CONSTANTS Threads,      \* thread ids
          Dialects,     \* dialect modules
          Deps,         \* [Dialects -> SUBSET Dialects]: modules imported by a module's body (acyclic)
          LazyInBody,   \* SUBSET Dialects: the body touches a lazy attribute of the sqlglot.dialects package
          OpsOf,        \* [Threads -> set of operations the thread may perform (it performs one)]
          Variant       \* "code" | "early_register" | "publish_before_fill" | "sysmodules_shortcut" | "get_takes_pkg_lock"

None == "none"
AllMods == Dialects \cup {"opt", "base"}     \* "base" = sqlglot.dialects.dialect, always loaded

(* --algorithm LazyImport {
variables
  L = [owner |-> None, n |-> 0],           \* sqlglot.dialects._import_lock (RLock)
  OL = [owner |-> None, n |-> 0],          \* sqlglot.optimizer._import_lock (RLock)
  ML = [x \in AllMods |-> None],           \* owner of the per-module import lock
  mod = [x \in AllMods |-> IF x = "base" THEN "loaded" ELSE "absent"],   \* sys.modules: absent / loading / loaded
  execs = [x \in AllMods |-> 0],           \* how often the module body ran
  reg = [x \in Dialects |-> FALSE],        \* key present in _Dialect._classes
  built = [x \in Dialects |-> FALSE],      \* the class has all its derived attributes
  cache = [x \in Dialects |-> "none"],     \* _DISPATCH_CACHE entry of the dialect's generator: none / partial / full
  optpub = FALSE,                          \* the lazy optimizer export is cached in the package globals
  obs = [t \in Threads |-> "ok"],          \* what the thread's call observed
  hist = <<>>;                             \* hook events in global order: <<thread, event, module>>

define {
  Free(lock, t) == lock.owner \in {None, t}
  Take(lock, t) == [owner |-> t, n |-> lock.n + 1]
  Drop(lock) == [owner |-> IF lock.n = 1 THEN None ELSE lock.owner, n |-> lock.n - 1]
}

macro Ev(e, x) { hist := Append(hist, <<self, e, x>>) }

procedure Import(m)
  variables todo = {}, dep = "";
{
 i_fast:  if (mod[m] = "loaded") { return };                       \* sys.modules hit, module initialised
 i_lock:  if (ML[m] = self) { return }                             \* circular import: the partial module is handed back
          else { await ML[m] = None; ML[m] := self };
 i_check: if (mod[m] = "loaded") { ML[m] := None; return };        \* somebody else finished meanwhile
 i_exec:  mod[m] := "loading"; execs[m] := execs[m] + 1;
          todo := IF m \in Dialects THEN Deps[m] ELSE {};
 i_deps:  while (todo # {}) {
            with (d \in todo) { dep := d; todo := todo \ {d} };
 i_dep:     call Import(dep)
          };
 i_lazy:  if (m \in LazyInBody) { call PkgAttr("base") };
 c_begin: if (m \in Dialects) {
            Ev("class_begin", m);
            if (Variant = "early_register") { reg[m] := TRUE };
          };
 c_built: if (m \in Dialects) { built[m] := TRUE; Ev("class_built", m) };
 c_reg:   if (m \in Dialects) { reg[m] := TRUE; Ev("class_registered", m) };
 i_done:  mod[m] := "loaded"; ML[m] := None; return;
}

procedure PkgAttr(pm)
{
 a_wait:   Ev("attr_wait", pm);
 a_lock:   await Free(L, self); L := Take(L, self); Ev("attr_locked", pm);
 a_import: call Import(pm);
 a_unl:    Ev("attr_unlocking", pm); L := Drop(L);
 a_done:   Ev("attr_done", pm); return;
}

procedure Get(gm)
{
 g_read:  if (reg[gm]) {
            if (~built[gm]) { obs[self] := "partial" };
            return
          };
 g_load:  Ev("load_begin", gm);
          if (Variant = "get_takes_pkg_lock") { call PkgAttr(gm) } else { call Import(gm) };
 g_end:   Ev("load_end", gm);
          if (~reg[gm]) { obs[self] := "missing" } else if (~built[gm]) { obs[self] := "partial" };
          return;
}

procedure Gen(xm)
{
 n_get:   call Get(xm);
 n_probe: Ev("dispatch_probe", xm);
          if (cache[xm] = "full") { return }
          else if (cache[xm] = "partial") { obs[self] := "partial"; return };
 n_fill:  if (Variant = "publish_before_fill") { cache[xm] := "partial" };
 n_built: Ev("dispatch_built", xm);
 n_pub:   cache[xm] := "full"; Ev("dispatch_published", xm); return;
}

procedure OptAttr()
{
 o_fast:  if (optpub) { return };                                   \* module globals hit: __getattr__ is not called
 o_wait:  Ev("opt_wait", "opt");
 o_lock:  await Free(OL, self); OL := Take(OL, self); Ev("opt_locked", "opt");
 o_imp:   if (Variant = "sysmodules_shortcut" /\ mod["opt"] # "absent") {
            if (mod["opt"] = "loading" /\ ML["opt"] # self) { obs[self] := "partial" }
          } else { call Import("opt") };
 o_pub:   Ev("opt_publish", "opt"); optpub := TRUE;
 o_done:  OL := Drop(OL); return;
}

process (T \in Threads)
  variable op = [k |-> "", m |-> ""];
{
 pick: with (o \in OpsOf[self]) { op := o };
 run:  if (op.k = "attr") { call PkgAttr(op.m) }
       else if (op.k = "get") { call Get(op.m) }
       else if (op.k = "gen") { call Gen(op.m) }
       else if (op.k = "direct") { call Import(op.m) }
       else if (op.k = "opt") { call OptAttr() }
       else { call Import("opt") };                                  \* "optdirect"
 fin:  skip;
}
} *)
\* BEGIN TRANSLATION (chksum(pcal) = "5b5a8f46" /\ chksum(tla) = "17e5e759")
CONSTANT defaultInitValue
VARIABLES pc, L, OL, ML, mod, execs, reg, built, cache, optpub, obs, hist, 
          stack

(* define statement *)
Free(lock, t) == lock.owner \in {None, t}
Take(lock, t) == [owner |-> t, n |-> lock.n + 1]
Drop(lock) == [owner |-> IF lock.n = 1 THEN None ELSE lock.owner, n |-> lock.n - 1]

VARIABLES m, todo, dep, pm, gm, xm, op

vars == << pc, L, OL, ML, mod, execs, reg, built, cache, optpub, obs, hist, 
           stack, m, todo, dep, pm, gm, xm, op >>

ProcSet == (Threads)

Init == (* Global variables *)
        /\ L = [owner |-> None, n |-> 0]
        /\ OL = [owner |-> None, n |-> 0]
        /\ ML = [x \in AllMods |-> None]
        /\ mod = [x \in AllMods |-> IF x = "base" THEN "loaded" ELSE "absent"]
        /\ execs = [x \in AllMods |-> 0]
        /\ reg = [x \in Dialects |-> FALSE]
        /\ built = [x \in Dialects |-> FALSE]
        /\ cache = [x \in Dialects |-> "none"]
        /\ optpub = FALSE
        /\ obs = [t \in Threads |-> "ok"]
        /\ hist = <<>>
        (* Procedure Import *)
        /\ m = [ self \in ProcSet |-> defaultInitValue]
        /\ todo = [ self \in ProcSet |-> {}]
        /\ dep = [ self \in ProcSet |-> ""]
        (* Procedure PkgAttr *)
        /\ pm = [ self \in ProcSet |-> defaultInitValue]
        (* Procedure Get *)
        /\ gm = [ self \in ProcSet |-> defaultInitValue]
        (* Procedure Gen *)
        /\ xm = [ self \in ProcSet |-> defaultInitValue]
        (* Process T *)
        /\ op = [self \in Threads |-> [k |-> "", m |-> ""]]
        /\ stack = [self \in ProcSet |-> << >>]
        /\ pc = [self \in ProcSet |-> "pick"]

i_fast(self) == /\ pc[self] = "i_fast"
                /\ IF mod[m[self]] = "loaded"
                      THEN /\ pc' = [pc EXCEPT ![self] = Head(stack[self]).pc]
                           /\ todo' = [todo EXCEPT ![self] = Head(stack[self]).todo]
                           /\ dep' = [dep EXCEPT ![self] = Head(stack[self]).dep]
                           /\ m' = [m EXCEPT ![self] = Head(stack[self]).m]
                           /\ stack' = [stack EXCEPT ![self] = Tail(stack[self])]
                      ELSE /\ pc' = [pc EXCEPT ![self] = "i_lock"]
                           /\ UNCHANGED << stack, m, todo, dep >>
                /\ UNCHANGED << L, OL, ML, mod, execs, reg, built, cache, 
                                optpub, obs, hist, pm, gm, xm, op >>

i_lock(self) == /\ pc[self] = "i_lock"
                /\ IF ML[m[self]] = self
                      THEN /\ pc' = [pc EXCEPT ![self] = Head(stack[self]).pc]
                           /\ todo' = [todo EXCEPT ![self] = Head(stack[self]).todo]
                           /\ dep' = [dep EXCEPT ![self] = Head(stack[self]).dep]
                           /\ m' = [m EXCEPT ![self] = Head(stack[self]).m]
                           /\ stack' = [stack EXCEPT ![self] = Tail(stack[self])]
                           /\ ML' = ML
                      ELSE /\ ML[m[self]] = None
                           /\ ML' = [ML EXCEPT ![m[self]] = self]
                           /\ pc' = [pc EXCEPT ![self] = "i_check"]
                           /\ UNCHANGED << stack, m, todo, dep >>
                /\ UNCHANGED << L, OL, mod, execs, reg, built, cache, optpub, 
                                obs, hist, pm, gm, xm, op >>

i_check(self) == /\ pc[self] = "i_check"
                 /\ IF mod[m[self]] = "loaded"
                       THEN /\ ML' = [ML EXCEPT ![m[self]] = None]
                            /\ pc' = [pc EXCEPT ![self] = Head(stack[self]).pc]
                            /\ todo' = [todo EXCEPT ![self] = Head(stack[self]).todo]
                            /\ dep' = [dep EXCEPT ![self] = Head(stack[self]).dep]
                            /\ m' = [m EXCEPT ![self] = Head(stack[self]).m]
                            /\ stack' = [stack EXCEPT ![self] = Tail(stack[self])]
                       ELSE /\ pc' = [pc EXCEPT ![self] = "i_exec"]
                            /\ UNCHANGED << ML, stack, m, todo, dep >>
                 /\ UNCHANGED << L, OL, mod, execs, reg, built, cache, optpub, 
                                 obs, hist, pm, gm, xm, op >>

i_exec(self) == /\ pc[self] = "i_exec"
                /\ mod' = [mod EXCEPT ![m[self]] = "loading"]
                /\ execs' = [execs EXCEPT ![m[self]] = execs[m[self]] + 1]
                /\ todo' = [todo EXCEPT ![self] = IF m[self] \in Dialects THEN Deps[m[self]] ELSE {}]
                /\ pc' = [pc EXCEPT ![self] = "i_deps"]
                /\ UNCHANGED << L, OL, ML, reg, built, cache, optpub, obs, 
                                hist, stack, m, dep, pm, gm, xm, op >>

i_deps(self) == /\ pc[self] = "i_deps"
                /\ IF todo[self] # {}
                      THEN /\ \E d \in todo[self]:
                                /\ dep' = [dep EXCEPT ![self] = d]
                                /\ todo' = [todo EXCEPT ![self] = todo[self] \ {d}]
                           /\ pc' = [pc EXCEPT ![self] = "i_dep"]
                      ELSE /\ pc' = [pc EXCEPT ![self] = "i_lazy"]
                           /\ UNCHANGED << todo, dep >>
                /\ UNCHANGED << L, OL, ML, mod, execs, reg, built, cache, 
                                optpub, obs, hist, stack, m, pm, gm, xm, op >>

i_dep(self) == /\ pc[self] = "i_dep"
               /\ /\ m' = [m EXCEPT ![self] = dep[self]]
                  /\ stack' = [stack EXCEPT ![self] = << [ procedure |->  "Import",
                                                           pc        |->  "i_deps",
                                                           todo      |->  todo[self],
                                                           dep       |->  dep[self],
                                                           m         |->  m[self] ] >>
                                                       \o stack[self]]
               /\ todo' = [todo EXCEPT ![self] = {}]
               /\ dep' = [dep EXCEPT ![self] = ""]
               /\ pc' = [pc EXCEPT ![self] = "i_fast"]
               /\ UNCHANGED << L, OL, ML, mod, execs, reg, built, cache, 
                               optpub, obs, hist, pm, gm, xm, op >>

i_lazy(self) == /\ pc[self] = "i_lazy"
                /\ IF m[self] \in LazyInBody
                      THEN /\ /\ pm' = [pm EXCEPT ![self] = "base"]
                              /\ stack' = [stack EXCEPT ![self] = << [ procedure |->  "PkgAttr",
                                                                       pc        |->  "c_begin",
                                                                       pm        |->  pm[self] ] >>
                                                                   \o stack[self]]
                           /\ pc' = [pc EXCEPT ![self] = "a_wait"]
                      ELSE /\ pc' = [pc EXCEPT ![self] = "c_begin"]
                           /\ UNCHANGED << stack, pm >>
                /\ UNCHANGED << L, OL, ML, mod, execs, reg, built, cache, 
                                optpub, obs, hist, m, todo, dep, gm, xm, op >>

c_begin(self) == /\ pc[self] = "c_begin"
                 /\ IF m[self] \in Dialects
                       THEN /\ hist' = Append(hist, <<self, "class_begin", m[self]>>)
                            /\ IF Variant = "early_register"
                                  THEN /\ reg' = [reg EXCEPT ![m[self]] = TRUE]
                                  ELSE /\ TRUE
                                       /\ reg' = reg
                       ELSE /\ TRUE
                            /\ UNCHANGED << reg, hist >>
                 /\ pc' = [pc EXCEPT ![self] = "c_built"]
                 /\ UNCHANGED << L, OL, ML, mod, execs, built, cache, optpub, 
                                 obs, stack, m, todo, dep, pm, gm, xm, op >>

c_built(self) == /\ pc[self] = "c_built"
                 /\ IF m[self] \in Dialects
                       THEN /\ built' = [built EXCEPT ![m[self]] = TRUE]
                            /\ hist' = Append(hist, <<self, "class_built", m[self]>>)
                       ELSE /\ TRUE
                            /\ UNCHANGED << built, hist >>
                 /\ pc' = [pc EXCEPT ![self] = "c_reg"]
                 /\ UNCHANGED << L, OL, ML, mod, execs, reg, cache, optpub, 
                                 obs, stack, m, todo, dep, pm, gm, xm, op >>

c_reg(self) == /\ pc[self] = "c_reg"
               /\ IF m[self] \in Dialects
                     THEN /\ reg' = [reg EXCEPT ![m[self]] = TRUE]
                          /\ hist' = Append(hist, <<self, "class_registered", m[self]>>)
                     ELSE /\ TRUE
                          /\ UNCHANGED << reg, hist >>
               /\ pc' = [pc EXCEPT ![self] = "i_done"]
               /\ UNCHANGED << L, OL, ML, mod, execs, built, cache, optpub, 
                               obs, stack, m, todo, dep, pm, gm, xm, op >>

i_done(self) == /\ pc[self] = "i_done"
                /\ mod' = [mod EXCEPT ![m[self]] = "loaded"]
                /\ ML' = [ML EXCEPT ![m[self]] = None]
                /\ pc' = [pc EXCEPT ![self] = Head(stack[self]).pc]
                /\ todo' = [todo EXCEPT ![self] = Head(stack[self]).todo]
                /\ dep' = [dep EXCEPT ![self] = Head(stack[self]).dep]
                /\ m' = [m EXCEPT ![self] = Head(stack[self]).m]
                /\ stack' = [stack EXCEPT ![self] = Tail(stack[self])]
                /\ UNCHANGED << L, OL, execs, reg, built, cache, optpub, obs, 
                                hist, pm, gm, xm, op >>

Import(self) == i_fast(self) \/ i_lock(self) \/ i_check(self)
                   \/ i_exec(self) \/ i_deps(self) \/ i_dep(self)
                   \/ i_lazy(self) \/ c_begin(self) \/ c_built(self)
                   \/ c_reg(self) \/ i_done(self)

a_wait(self) == /\ pc[self] = "a_wait"
                /\ hist' = Append(hist, <<self, "attr_wait", pm[self]>>)
                /\ pc' = [pc EXCEPT ![self] = "a_lock"]
                /\ UNCHANGED << L, OL, ML, mod, execs, reg, built, cache, 
                                optpub, obs, stack, m, todo, dep, pm, gm, xm, 
                                op >>

a_lock(self) == /\ pc[self] = "a_lock"
                /\ Free(L, self)
                /\ L' = Take(L, self)
                /\ hist' = Append(hist, <<self, "attr_locked", pm[self]>>)
                /\ pc' = [pc EXCEPT ![self] = "a_import"]
                /\ UNCHANGED << OL, ML, mod, execs, reg, built, cache, optpub, 
                                obs, stack, m, todo, dep, pm, gm, xm, op >>

a_import(self) == /\ pc[self] = "a_import"
                  /\ /\ m' = [m EXCEPT ![self] = pm[self]]
                     /\ stack' = [stack EXCEPT ![self] = << [ procedure |->  "Import",
                                                              pc        |->  "a_unl",
                                                              todo      |->  todo[self],
                                                              dep       |->  dep[self],
                                                              m         |->  m[self] ] >>
                                                          \o stack[self]]
                  /\ todo' = [todo EXCEPT ![self] = {}]
                  /\ dep' = [dep EXCEPT ![self] = ""]
                  /\ pc' = [pc EXCEPT ![self] = "i_fast"]
                  /\ UNCHANGED << L, OL, ML, mod, execs, reg, built, cache, 
                                  optpub, obs, hist, pm, gm, xm, op >>

a_unl(self) == /\ pc[self] = "a_unl"
               /\ hist' = Append(hist, <<self, "attr_unlocking", pm[self]>>)
               /\ L' = Drop(L)
               /\ pc' = [pc EXCEPT ![self] = "a_done"]
               /\ UNCHANGED << OL, ML, mod, execs, reg, built, cache, optpub, 
                               obs, stack, m, todo, dep, pm, gm, xm, op >>

a_done(self) == /\ pc[self] = "a_done"
                /\ hist' = Append(hist, <<self, "attr_done", pm[self]>>)
                /\ pc' = [pc EXCEPT ![self] = Head(stack[self]).pc]
                /\ pm' = [pm EXCEPT ![self] = Head(stack[self]).pm]
                /\ stack' = [stack EXCEPT ![self] = Tail(stack[self])]
                /\ UNCHANGED << L, OL, ML, mod, execs, reg, built, cache, 
                                optpub, obs, m, todo, dep, gm, xm, op >>

PkgAttr(self) == a_wait(self) \/ a_lock(self) \/ a_import(self)
                    \/ a_unl(self) \/ a_done(self)

g_read(self) == /\ pc[self] = "g_read"
                /\ IF reg[gm[self]]
                      THEN /\ IF ~built[gm[self]]
                                 THEN /\ obs' = [obs EXCEPT ![self] = "partial"]
                                 ELSE /\ TRUE
                                      /\ obs' = obs
                           /\ pc' = [pc EXCEPT ![self] = Head(stack[self]).pc]
                           /\ gm' = [gm EXCEPT ![self] = Head(stack[self]).gm]
                           /\ stack' = [stack EXCEPT ![self] = Tail(stack[self])]
                      ELSE /\ pc' = [pc EXCEPT ![self] = "g_load"]
                           /\ UNCHANGED << obs, stack, gm >>
                /\ UNCHANGED << L, OL, ML, mod, execs, reg, built, cache, 
                                optpub, hist, m, todo, dep, pm, xm, op >>

g_load(self) == /\ pc[self] = "g_load"
                /\ hist' = Append(hist, <<self, "load_begin", gm[self]>>)
                /\ IF Variant = "get_takes_pkg_lock"
                      THEN /\ /\ pm' = [pm EXCEPT ![self] = gm[self]]
                              /\ stack' = [stack EXCEPT ![self] = << [ procedure |->  "PkgAttr",
                                                                       pc        |->  "g_end",
                                                                       pm        |->  pm[self] ] >>
                                                                   \o stack[self]]
                           /\ pc' = [pc EXCEPT ![self] = "a_wait"]
                           /\ UNCHANGED << m, todo, dep >>
                      ELSE /\ /\ m' = [m EXCEPT ![self] = gm[self]]
                              /\ stack' = [stack EXCEPT ![self] = << [ procedure |->  "Import",
                                                                       pc        |->  "g_end",
                                                                       todo      |->  todo[self],
                                                                       dep       |->  dep[self],
                                                                       m         |->  m[self] ] >>
                                                                   \o stack[self]]
                           /\ todo' = [todo EXCEPT ![self] = {}]
                           /\ dep' = [dep EXCEPT ![self] = ""]
                           /\ pc' = [pc EXCEPT ![self] = "i_fast"]
                           /\ pm' = pm
                /\ UNCHANGED << L, OL, ML, mod, execs, reg, built, cache, 
                                optpub, obs, gm, xm, op >>

g_end(self) == /\ pc[self] = "g_end"
               /\ hist' = Append(hist, <<self, "load_end", gm[self]>>)
               /\ IF ~reg[gm[self]]
                     THEN /\ obs' = [obs EXCEPT ![self] = "missing"]
                     ELSE /\ IF ~built[gm[self]]
                                THEN /\ obs' = [obs EXCEPT ![self] = "partial"]
                                ELSE /\ TRUE
                                     /\ obs' = obs
               /\ pc' = [pc EXCEPT ![self] = Head(stack[self]).pc]
               /\ gm' = [gm EXCEPT ![self] = Head(stack[self]).gm]
               /\ stack' = [stack EXCEPT ![self] = Tail(stack[self])]
               /\ UNCHANGED << L, OL, ML, mod, execs, reg, built, cache, 
                               optpub, m, todo, dep, pm, xm, op >>

Get(self) == g_read(self) \/ g_load(self) \/ g_end(self)

n_get(self) == /\ pc[self] = "n_get"
               /\ /\ gm' = [gm EXCEPT ![self] = xm[self]]
                  /\ stack' = [stack EXCEPT ![self] = << [ procedure |->  "Get",
                                                           pc        |->  "n_probe",
                                                           gm        |->  gm[self] ] >>
                                                       \o stack[self]]
               /\ pc' = [pc EXCEPT ![self] = "g_read"]
               /\ UNCHANGED << L, OL, ML, mod, execs, reg, built, cache, 
                               optpub, obs, hist, m, todo, dep, pm, xm, op >>

n_probe(self) == /\ pc[self] = "n_probe"
                 /\ hist' = Append(hist, <<self, "dispatch_probe", xm[self]>>)
                 /\ IF cache[xm[self]] = "full"
                       THEN /\ pc' = [pc EXCEPT ![self] = Head(stack[self]).pc]
                            /\ xm' = [xm EXCEPT ![self] = Head(stack[self]).xm]
                            /\ stack' = [stack EXCEPT ![self] = Tail(stack[self])]
                            /\ obs' = obs
                       ELSE /\ IF cache[xm[self]] = "partial"
                                  THEN /\ obs' = [obs EXCEPT ![self] = "partial"]
                                       /\ pc' = [pc EXCEPT ![self] = Head(stack[self]).pc]
                                       /\ xm' = [xm EXCEPT ![self] = Head(stack[self]).xm]
                                       /\ stack' = [stack EXCEPT ![self] = Tail(stack[self])]
                                  ELSE /\ pc' = [pc EXCEPT ![self] = "n_fill"]
                                       /\ UNCHANGED << obs, stack, xm >>
                 /\ UNCHANGED << L, OL, ML, mod, execs, reg, built, cache, 
                                 optpub, m, todo, dep, pm, gm, op >>

n_fill(self) == /\ pc[self] = "n_fill"
                /\ IF Variant = "publish_before_fill"
                      THEN /\ cache' = [cache EXCEPT ![xm[self]] = "partial"]
                      ELSE /\ TRUE
                           /\ cache' = cache
                /\ pc' = [pc EXCEPT ![self] = "n_built"]
                /\ UNCHANGED << L, OL, ML, mod, execs, reg, built, optpub, obs, 
                                hist, stack, m, todo, dep, pm, gm, xm, op >>

n_built(self) == /\ pc[self] = "n_built"
                 /\ hist' = Append(hist, <<self, "dispatch_built", xm[self]>>)
                 /\ pc' = [pc EXCEPT ![self] = "n_pub"]
                 /\ UNCHANGED << L, OL, ML, mod, execs, reg, built, cache, 
                                 optpub, obs, stack, m, todo, dep, pm, gm, xm, 
                                 op >>

n_pub(self) == /\ pc[self] = "n_pub"
               /\ cache' = [cache EXCEPT ![xm[self]] = "full"]
               /\ hist' = Append(hist, <<self, "dispatch_published", xm[self]>>)
               /\ pc' = [pc EXCEPT ![self] = Head(stack[self]).pc]
               /\ xm' = [xm EXCEPT ![self] = Head(stack[self]).xm]
               /\ stack' = [stack EXCEPT ![self] = Tail(stack[self])]
               /\ UNCHANGED << L, OL, ML, mod, execs, reg, built, optpub, obs, 
                               m, todo, dep, pm, gm, op >>

Gen(self) == n_get(self) \/ n_probe(self) \/ n_fill(self) \/ n_built(self)
                \/ n_pub(self)

o_fast(self) == /\ pc[self] = "o_fast"
                /\ IF optpub
                      THEN /\ pc' = [pc EXCEPT ![self] = Head(stack[self]).pc]
                           /\ stack' = [stack EXCEPT ![self] = Tail(stack[self])]
                      ELSE /\ pc' = [pc EXCEPT ![self] = "o_wait"]
                           /\ stack' = stack
                /\ UNCHANGED << L, OL, ML, mod, execs, reg, built, cache, 
                                optpub, obs, hist, m, todo, dep, pm, gm, xm, 
                                op >>

o_wait(self) == /\ pc[self] = "o_wait"
                /\ hist' = Append(hist, <<self, "opt_wait", "opt">>)
                /\ pc' = [pc EXCEPT ![self] = "o_lock"]
                /\ UNCHANGED << L, OL, ML, mod, execs, reg, built, cache, 
                                optpub, obs, stack, m, todo, dep, pm, gm, xm, 
                                op >>

o_lock(self) == /\ pc[self] = "o_lock"
                /\ Free(OL, self)
                /\ OL' = Take(OL, self)
                /\ hist' = Append(hist, <<self, "opt_locked", "opt">>)
                /\ pc' = [pc EXCEPT ![self] = "o_imp"]
                /\ UNCHANGED << L, ML, mod, execs, reg, built, cache, optpub, 
                                obs, stack, m, todo, dep, pm, gm, xm, op >>

o_imp(self) == /\ pc[self] = "o_imp"
               /\ IF Variant = "sysmodules_shortcut" /\ mod["opt"] # "absent"
                     THEN /\ IF mod["opt"] = "loading" /\ ML["opt"] # self
                                THEN /\ obs' = [obs EXCEPT ![self] = "partial"]
                                ELSE /\ TRUE
                                     /\ obs' = obs
                          /\ pc' = [pc EXCEPT ![self] = "o_pub"]
                          /\ UNCHANGED << stack, m, todo, dep >>
                     ELSE /\ /\ m' = [m EXCEPT ![self] = "opt"]
                             /\ stack' = [stack EXCEPT ![self] = << [ procedure |->  "Import",
                                                                      pc        |->  "o_pub",
                                                                      todo      |->  todo[self],
                                                                      dep       |->  dep[self],
                                                                      m         |->  m[self] ] >>
                                                                  \o stack[self]]
                          /\ todo' = [todo EXCEPT ![self] = {}]
                          /\ dep' = [dep EXCEPT ![self] = ""]
                          /\ pc' = [pc EXCEPT ![self] = "i_fast"]
                          /\ obs' = obs
               /\ UNCHANGED << L, OL, ML, mod, execs, reg, built, cache, 
                               optpub, hist, pm, gm, xm, op >>

o_pub(self) == /\ pc[self] = "o_pub"
               /\ hist' = Append(hist, <<self, "opt_publish", "opt">>)
               /\ optpub' = TRUE
               /\ pc' = [pc EXCEPT ![self] = "o_done"]
               /\ UNCHANGED << L, OL, ML, mod, execs, reg, built, cache, obs, 
                               stack, m, todo, dep, pm, gm, xm, op >>

o_done(self) == /\ pc[self] = "o_done"
                /\ OL' = Drop(OL)
                /\ pc' = [pc EXCEPT ![self] = Head(stack[self]).pc]
                /\ stack' = [stack EXCEPT ![self] = Tail(stack[self])]
                /\ UNCHANGED << L, ML, mod, execs, reg, built, cache, optpub, 
                                obs, hist, m, todo, dep, pm, gm, xm, op >>

OptAttr(self) == o_fast(self) \/ o_wait(self) \/ o_lock(self)
                    \/ o_imp(self) \/ o_pub(self) \/ o_done(self)

pick(self) == /\ pc[self] = "pick"
              /\ \E o \in OpsOf[self]:
                   op' = [op EXCEPT ![self] = o]
              /\ pc' = [pc EXCEPT ![self] = "run"]
              /\ UNCHANGED << L, OL, ML, mod, execs, reg, built, cache, optpub, 
                              obs, hist, stack, m, todo, dep, pm, gm, xm >>

run(self) == /\ pc[self] = "run"
             /\ IF op[self].k = "attr"
                   THEN /\ /\ pm' = [pm EXCEPT ![self] = op[self].m]
                           /\ stack' = [stack EXCEPT ![self] = << [ procedure |->  "PkgAttr",
                                                                    pc        |->  "fin",
                                                                    pm        |->  pm[self] ] >>
                                                                \o stack[self]]
                        /\ pc' = [pc EXCEPT ![self] = "a_wait"]
                        /\ UNCHANGED << m, todo, dep, gm, xm >>
                   ELSE /\ IF op[self].k = "get"
                              THEN /\ /\ gm' = [gm EXCEPT ![self] = op[self].m]
                                      /\ stack' = [stack EXCEPT ![self] = << [ procedure |->  "Get",
                                                                               pc        |->  "fin",
                                                                               gm        |->  gm[self] ] >>
                                                                           \o stack[self]]
                                   /\ pc' = [pc EXCEPT ![self] = "g_read"]
                                   /\ UNCHANGED << m, todo, dep, xm >>
                              ELSE /\ IF op[self].k = "gen"
                                         THEN /\ /\ stack' = [stack EXCEPT ![self] = << [ procedure |->  "Gen",
                                                                                          pc        |->  "fin",
                                                                                          xm        |->  xm[self] ] >>
                                                                                      \o stack[self]]
                                                 /\ xm' = [xm EXCEPT ![self] = op[self].m]
                                              /\ pc' = [pc EXCEPT ![self] = "n_get"]
                                              /\ UNCHANGED << m, todo, dep >>
                                         ELSE /\ IF op[self].k = "direct"
                                                    THEN /\ /\ m' = [m EXCEPT ![self] = op[self].m]
                                                            /\ stack' = [stack EXCEPT ![self] = << [ procedure |->  "Import",
                                                                                                     pc        |->  "fin",
                                                                                                     todo      |->  todo[self],
                                                                                                     dep       |->  dep[self],
                                                                                                     m         |->  m[self] ] >>
                                                                                                 \o stack[self]]
                                                         /\ todo' = [todo EXCEPT ![self] = {}]
                                                         /\ dep' = [dep EXCEPT ![self] = ""]
                                                         /\ pc' = [pc EXCEPT ![self] = "i_fast"]
                                                    ELSE /\ IF op[self].k = "opt"
                                                               THEN /\ stack' = [stack EXCEPT ![self] = << [ procedure |->  "OptAttr",
                                                                                                             pc        |->  "fin" ] >>
                                                                                                         \o stack[self]]
                                                                    /\ pc' = [pc EXCEPT ![self] = "o_fast"]
                                                                    /\ UNCHANGED << m, 
                                                                                    todo, 
                                                                                    dep >>
                                                               ELSE /\ /\ m' = [m EXCEPT ![self] = "opt"]
                                                                       /\ stack' = [stack EXCEPT ![self] = << [ procedure |->  "Import",
                                                                                                                pc        |->  "fin",
                                                                                                                todo      |->  todo[self],
                                                                                                                dep       |->  dep[self],
                                                                                                                m         |->  m[self] ] >>
                                                                                                            \o stack[self]]
                                                                    /\ todo' = [todo EXCEPT ![self] = {}]
                                                                    /\ dep' = [dep EXCEPT ![self] = ""]
                                                                    /\ pc' = [pc EXCEPT ![self] = "i_fast"]
                                              /\ xm' = xm
                                   /\ gm' = gm
                        /\ pm' = pm
             /\ UNCHANGED << L, OL, ML, mod, execs, reg, built, cache, optpub, 
                             obs, hist, op >>

fin(self) == /\ pc[self] = "fin"
             /\ TRUE
             /\ pc' = [pc EXCEPT ![self] = "Done"]
             /\ UNCHANGED << L, OL, ML, mod, execs, reg, built, cache, optpub, 
                             obs, hist, stack, m, todo, dep, pm, gm, xm, op >>

T(self) == pick(self) \/ run(self) \/ fin(self)

(* Allow infinite stuttering to prevent deadlock on termination. *)
Terminating == /\ \A self \in ProcSet: pc[self] = "Done"
               /\ UNCHANGED vars

Next == (\E self \in ProcSet:  \/ Import(self) \/ PkgAttr(self) \/ Get(self)
                               \/ Gen(self) \/ OptAttr(self))
           \/ (\E self \in Threads: T(self))
           \/ Terminating

Spec == Init /\ [][Next]_vars

Termination == <>(\A self \in ProcSet: pc[self] = "Done")

\* END TRANSLATION 


(* ------------------------------ properties ------------------------------ *)
Blocked(t) == \/ pc[t] = "i_lock" /\ ML[m[t]] \notin {None, t}
              \/ pc[t] = "a_lock" /\ ~Free(L, t)
              \/ pc[t] = "o_lock" /\ ~Free(OL, t)
AllDone == \A t \in Threads : pc[t] = "Done"
\* some unfinished thread can always take a step (no lock-order cycle between the package locks and the import locks)
NoDeadlock == (\E t \in Threads : pc[t] # "Done") => (\E t \in Threads : pc[t] # "Done" /\ ~Blocked(t))
\* lazy loading completes exactly once per module
ExactlyOnce == \A x \in AllMods : execs[x] <= 1
\* nobody observes a half-built dialect class, a partially filled dispatch table or a partially initialised module
NoPartial == \A t \in Threads : obs[t] = "ok"
RegisteredImpliesBuilt == \A x \in Dialects : reg[x] => built[x]
LoadedImpliesRegistered == \A x \in Dialects : mod[x] = "loaded" => reg[x]
PublishedImpliesFull == \A x \in Dialects : cache[x] # "partial"
LockDiscipline == /\ (L.owner = None) = (L.n = 0)
                  /\ (OL.owner = None) = (OL.n = 0)
                  /\ AllDone => (L.n = 0 /\ OL.n = 0 /\ \A x \in AllMods : ML[x] = None)
Termination2 == <>AllDone

\* the event history multiplies states without adding behaviour: larger instances hide it with this VIEW
NoHist == << pc, L, OL, ML, mod, execs, reg, built, cache, optpub, obs, stack, m, todo, dep, pm, gm, xm, op >>

\* for the replay harness: every complete behaviour's hook-event order, and every deadlocked one
Stuck == (\E t \in Threads : pc[t] # "Done") /\ (\A t \in Threads : pc[t] = "Done" \/ Blocked(t))
EmitDone == AllDone => PrintT(<<"H", hist>>)
EmitStuck == Stuck => PrintT(<<"D", hist>>)
=============================================================================
