------------------------------- MODULE Ast -------------------------------
(***************************************************************************)
(* The mutable syntax tree of sqlglot (sqlglot/expressions/core.py) as a   *)
(* node store.  One action per branch of the public mutators               *)
(*   Expr.set (6 branches), Expr.append, Expr.replace, Expr.pop,           *)
(*   Expr.__hash__ (bottom-up cache fill), Expr.copy (__deepcopy__).       *)
(* Written to be bound: the Python driver replays every transition of the  *)
(* bounded model on real objects, and every state the real code reaches is *)
(* sent back (AstTrace.tla) to have the invariants below evaluated on it.  *)
(*                                                                         *)
(* Environment assumption (explicit guards `Fresh`): a value handed to     *)
(* set/append/replace is not currently stored in any slot and is not an    *)
(* ancestor of the target.  SetAttached (moving without popping) exists    *)
(* but is only enabled by AstShared.cfg, which shows NoSharing breaking.   *)
(***************************************************************************)
EXTENDS Naturals, Sequences, FiniteSets, TLC, Json

CONSTANTS N,            \* node ids 1..N
          Pop,          \* name of the initial population (cfg files cannot hold tuples)
          MaxOps,       \* bound on the length of a history
          ExtraKeys,    \* further argument names (only used when real trees are checked: AstTrace)
          Variant       \* "code" | "inval_self_only" | "no_reindex" | "copy_keeps_hash" | "attached"

\* classes of the pre-created nodes ("B" binary, "V" variadic, "LR" raw-hash leaf, "LF" case-folding leaf)
\* and the scalar `this` of the leaves; ids beyond Len(InitCls) are free (used by copy)
InitCls == CASE Pop = "bvlll"  -> <<"B", "V", "LR", "LF", "LR">>
             [] Pop = "bbvll"  -> <<"B", "B", "V", "LR", "LF">>
             [] Pop = "vvlll"  -> <<"V", "V", "LR", "LR", "LF">>
             [] Pop = "bvll"   -> <<"B", "V", "LR", "LF">>
             [] Pop = "bvl"    -> <<"B", "V", "LR">>
             [] Pop = "bbvlll" -> <<"B", "B", "V", "LR", "LF", "LR">>
             [] Pop = "bvlff"  -> <<"B", "V", "LF", "LF", "LR">>
             [] Pop = "vel"    -> <<"V", "LR">>
             [] Pop = "bvel"   -> <<"B", "V", "LR">>
             [] Pop = "none"   -> <<>>
InitVal == CASE Pop = "bvlll"  -> <<"", "", "x", "X", "y">>
             [] Pop = "bbvll"  -> <<"", "", "", "x", "X">>
             [] Pop = "vvlll"  -> <<"", "", "x", "y", "X">>
             [] Pop = "bvll"   -> <<"", "", "x", "X">>
             [] Pop = "bvl"    -> <<"", "", "x">>
             [] Pop = "bbvlll" -> <<"", "", "", "x", "X", "x">>
             [] Pop = "bvlff"  -> <<"", "", "x", "X", "x">>
             [] Pop = "vel"    -> <<"", "x">>
             [] Pop = "bvel"   -> <<"", "", "x">>
             [] Pop = "none"   -> <<>>

EmptyLists == Pop \in {"vel", "bvel"}    \* variadic nodes start with expressions=[] (like a parsed F())

Node   == 1..N
None   == 0
NoHash == <<>>
SKeys  == {"this", "expression"}            \* scalar slots
LKey   == "expressions"                     \* list slot
Keys   == SKeys \cup {LKey} \cup ExtraKeys
NoArg  == [t |-> "none", ids |-> <<>>]
NodeArg(v) == [t |-> "node", ids |-> <<v>>]
ListArg(vs) == [t |-> "list", ids |-> vs]

VARIABLES used,      \* set of allocated ids
          cls,       \* id -> class
          val,       \* id -> scalar arg `this` of a leaf ("" = absent)
          quo,       \* id -> scalar arg `quoted` of a leaf ("T" or "" = absent)
          args,      \* id -> [Keys -> arg]
          parent, akey, idx,   \* back pointers as the code keeps them (idx 0 = None; list positions are 1-based here)
          hc,        \* cached hash: NoHash or a structural term
          nops,
          act,       \* label of the last action (hidden by VIEW; what the driver replays)
          hist       \* the actions so far (hidden by VIEW): a shortest path to the state, for the replay driver

vars == <<used, cls, val, quo, args, parent, akey, idx, hc, nops, act, hist>>
View == <<used, cls, val, quo, args, parent, akey, idx, hc, nops>>

Inner(n) == cls[n] \in {"B", "V"}
SlotsOf(n) == IF cls[n] = "B" THEN {"this", "expression"}
              ELSE IF cls[n] = "V" THEN {"this", LKey} ELSE {}

(* ------------------------------ structure ------------------------------ *)
ChildIds(n) == (UNION { {args[n][k].ids[i] : i \in DOMAIN args[n][k].ids} : k \in Keys }) \ {None}   \* 0 in a list = a non-expression element
StoredIn(c) == { <<n, k, i>> \in used \X Keys \X (1..N) :
                    i \in DOMAIN args[n][k].ids /\ args[n][k].ids[i] = c }
Stored(c) == StoredIn(c) # {}

RECURSIVE Desc(_, _)
Desc(n, fuel) == IF fuel = 0 THEN {n}
                 ELSE {n} \cup UNION { Desc(c, fuel - 1) : c \in ChildIds(n) }
Descendants(n) == Desc(n, N)

(* canonical structural term = what Expr.__hash__ hashes, from scratch:     *)
(* absent / None / [] contribute nothing, a scalar child and a singleton    *)
(* list contribute the same, leaf text is case-folded unless the class      *)
(* hashes raw args (Literal, Identifier).                                   *)
Fold(s) == IF s = "X" THEN "x" ELSE IF s = "Y" THEN "y" ELSE s
LeafTerm(n) == <<cls[n], IF cls[n] = "LF" THEN Fold(val[n]) ELSE val[n], quo[n]>>

RECURSIVE StructF(_, _)
StructF(n, fuel) ==
    IF n = None THEN <<"~">>
    ELSE IF ~Inner(n) THEN LeafTerm(n)
    ELSE IF fuel = 0 THEN <<"cycle">>
    ELSE <<cls[n], [k \in Keys |-> [i \in DOMAIN args[n][k].ids |-> StructF(args[n][k].ids[i], fuel - 1)]]>>
Struct(n) == StructF(n, N)

(* what __hash__ computes: a cached child is trusted, never recomputed *)
RECURSIVE HashF(_, _, _)
HashF(n, h, fuel) ==
    IF n = None THEN <<"~">>
    ELSE IF h[n] # NoHash THEN h[n]
    ELSE IF ~Inner(n) THEN LeafTerm(n)
    ELSE IF fuel = 0 THEN <<"cycle">>
    ELSE <<cls[n], [k \in Keys |-> [i \in DOMAIN args[n][k].ids |-> HashF(args[n][k].ids[i], h, fuel - 1)]]>>

RECURSIVE Uncached(_, _, _)
Uncached(n, h, fuel) ==     \* nodes __hash__ visits from n: through uncached nodes only
    IF h[n] # NoHash \/ fuel = 0 THEN {}
    ELSE {n} \cup UNION { Uncached(c, h, fuel - 1) : c \in ChildIds(n) }

(* hash invalidation: walk up `parent` while the hash is set, clearing as it goes *)
RECURSIVE Chain(_, _, _)
Chain(n, h, fuel) ==
    IF n = None \/ fuel = 0 THEN {}
    ELSE IF h[n] = NoHash THEN {}
    ELSE {n} \cup Chain(parent[n], [h EXCEPT ![n] = NoHash], fuel - 1)

Invalidate(n) ==
    LET c == IF Variant = "inval_self_only" THEN (IF hc[n] # NoHash THEN {n} ELSE {}) ELSE Chain(n, hc, N + 1)
    IN [m \in Node |-> IF m \in c THEN NoHash ELSE hc[m]]

(* a value that may legally be handed to a mutator of target n *)
Fresh(v, n) == /\ v \in used
               /\ ~Stored(v)
               /\ n \notin Descendants(v)

SetPtr(f, vs, p) == [m \in Node |-> IF \E i \in DOMAIN vs : vs[i] = m THEN p ELSE f[m]]
SetIdx(f, vs)    == [m \in Node |-> IF \E i \in DOMAIN vs : vs[i] = m
                                    THEN CHOOSE i \in DOMAIN vs : vs[i] = m ELSE f[m]]

Step(a) == /\ nops < MaxOps /\ nops' = nops + 1 /\ act' = a /\ hist' = Append(hist, a)

(* ------------------------------- actions ------------------------------- *)
\* set(k, v)  with index None, value an expression
SetScalar(n, k, v) ==
    /\ n \in used /\ Inner(n) /\ k \in SlotsOf(n) /\ Fresh(v, n)
    /\ hc' = Invalidate(n)
    /\ args' = [args EXCEPT ![n][k] = NodeArg(v)]
    /\ parent' = [parent EXCEPT ![v] = n]
    /\ akey' = [akey EXCEPT ![v] = k]
    /\ idx' = [idx EXCEPT ![v] = 0]
    /\ UNCHANGED <<used, cls, val, quo>>
    /\ Step([op |-> "set", n |-> n, k |-> k, v |-> <<v>>, i |-> 0, ow |-> TRUE, s |-> ""])

\* set(k, None): pops the key
SetNone(n, k) ==
    /\ n \in used /\ Inner(n) /\ k \in SlotsOf(n)
    /\ hc' = Invalidate(n)
    /\ args' = [args EXCEPT ![n][k] = NoArg]
    /\ UNCHANGED <<used, cls, val, quo, parent, akey, idx>>
    /\ Step([op |-> "setnone", n |-> n, k |-> k, v |-> <<>>, i |-> 0, ow |-> TRUE, s |-> ""])

\* set(k, [v1, ..]) with index None
SetList(n, vs) ==
    /\ n \in used /\ cls[n] = "V"
    /\ \A i \in DOMAIN vs : Fresh(vs[i], n)
    /\ \A i, j \in DOMAIN vs : i # j => vs[i] # vs[j]
    /\ hc' = Invalidate(n)
    /\ args' = [args EXCEPT ![n][LKey] = ListArg(vs)]
    /\ parent' = SetPtr(parent, vs, n)
    /\ akey' = SetPtr(akey, vs, LKey)
    /\ idx' = SetIdx(idx, vs)
    /\ UNCHANGED <<used, cls, val, quo>>
    /\ Step([op |-> "setlist", n |-> n, k |-> LKey, v |-> vs, i |-> 0, ow |-> TRUE, s |-> ""])

CurList(n) == args[n][LKey].ids
IsList(n)  == args[n][LKey].t = "list"

\* set(k, v, index=i) : three in-range branches, all end in _set_parent(k, whole list)
SetIdxWrite(n, i, v, ow) ==
    /\ n \in used /\ cls[n] = "V" /\ IsList(n) /\ i \in DOMAIN CurList(n) /\ Fresh(v, n)
    /\ LET old == CurList(n)
           new == IF ow THEN [old EXCEPT ![i] = v]
                  ELSE SubSeq(old, 1, i - 1) \o <<v>> \o SubSeq(old, i, Len(old))
       IN /\ args' = [args EXCEPT ![n][LKey] = ListArg(new)]
          /\ parent' = SetPtr(parent, new, n)
          /\ akey' = SetPtr(akey, new, LKey)
          /\ idx' = IF Variant = "no_reindex" THEN [idx EXCEPT ![v] = i] ELSE SetIdx(idx, new)
    /\ hc' = Invalidate(n)
    /\ UNCHANGED <<used, cls, val, quo>>
    /\ Step([op |-> "setidx", n |-> n, k |-> LKey, v |-> <<v>>, i |-> i, ow |-> ow, s |-> ""])

\* set(k, None, index=i): pops the element and decrements the index of the later ones
SetIdxNone(n, i) ==
    /\ n \in used /\ cls[n] = "V" /\ IsList(n) /\ i \in DOMAIN CurList(n)
    /\ LET old == CurList(n)
           new == SubSeq(old, 1, i - 1) \o SubSeq(old, i + 1, Len(old))
       IN /\ args' = [args EXCEPT ![n][LKey] = ListArg(new)]
          /\ idx' = IF Variant = "no_reindex" THEN idx
                    ELSE [m \in Node |-> IF \E j \in (i + 1)..Len(old) : old[j] = m THEN idx[m] - 1 ELSE idx[m]]
    /\ hc' = Invalidate(n)
    /\ UNCHANGED <<used, cls, val, quo, parent, akey>>
    /\ Step([op |-> "setidxnone", n |-> n, k |-> LKey, v |-> <<>>, i |-> i, ow |-> TRUE, s |-> ""])

\* set(k, [..], index=i): splice
SetIdxList(n, i, vs) ==
    /\ n \in used /\ cls[n] = "V" /\ IsList(n) /\ i \in DOMAIN CurList(n)
    /\ \A j \in DOMAIN vs : Fresh(vs[j], n)
    /\ \A j, l \in DOMAIN vs : j # l => vs[j] # vs[l]
    /\ LET old == CurList(n)
           new == SubSeq(old, 1, i - 1) \o vs \o SubSeq(old, i + 1, Len(old))
       IN /\ args' = [args EXCEPT ![n][LKey] = ListArg(new)]
          /\ parent' = SetPtr(parent, new, n)
          /\ akey' = SetPtr(akey, new, LKey)
          /\ idx' = SetIdx(idx, new)
    /\ hc' = Invalidate(n)
    /\ UNCHANGED <<used, cls, val, quo>>
    /\ Step([op |-> "setidxlist", n |-> n, k |-> LKey, v |-> vs, i |-> i, ow |-> TRUE, s |-> ""])

\* set(k, v, index=i) with i out of range: the hashes are already invalidated, then it returns
SetIdxOutOfRange(n, i, v) ==
    /\ n \in used /\ cls[n] = "V" /\ i \in 1..N /\ i \notin DOMAIN CurList(n) /\ Fresh(v, n)
    /\ hc' = Invalidate(n)
    /\ UNCHANGED <<used, cls, val, quo, args, parent, akey, idx>>
    /\ Step([op |-> "setidx", n |-> n, k |-> LKey, v |-> <<v>>, i |-> i, ow |-> TRUE, s |-> ""])

\* append(k, v): creates the list when the arg is not a list (dropping whatever was there)
AppendTo(n, k, v) ==
    /\ n \in used /\ cls[n] = "V" /\ k \in SlotsOf(n) /\ Fresh(v, n)
    /\ LET old == IF args[n][k].t = "list" THEN args[n][k].ids ELSE <<>>
           new == Append(old, v)
       IN /\ args' = [args EXCEPT ![n][k] = ListArg(new)]
          /\ idx' = [idx EXCEPT ![v] = Len(new)]
    /\ parent' = [parent EXCEPT ![v] = n]
    /\ akey' = [akey EXCEPT ![v] = k]
    /\ hc' = Invalidate(n)
    /\ UNCHANGED <<used, cls, val, quo>>
    /\ Step([op |-> "append", n |-> n, k |-> k, v |-> <<v>>, i |-> 0, ow |-> TRUE, s |-> ""])

(* replace / pop go through the *recorded* back pointers of `a` (which are stale *)
(* when `a` is an orphan) and then clear them.                                   *)
ReplaceWith(a, v) ==      \* v = None: pop
    /\ a \in used /\ parent[a] # None
    /\ v # a
    /\ LET p == parent[a]  k == akey[a]  i == idx[a]
       IN /\ v # p
          /\ v # None => Fresh(v, p)
          /\ hc' = Invalidate(p)
          /\ (i > 0 => args[p][k].t # "node")
          /\ IF i = 0
             THEN /\ args' = [args EXCEPT ![p][k] = IF v = None THEN NoArg ELSE NodeArg(v)]
                  /\ parent' = [m \in Node |-> IF m = a THEN None ELSE IF m = v THEN p ELSE parent[m]]
                  /\ akey' = [m \in Node |-> IF m = a THEN "" ELSE IF m = v THEN k ELSE akey[m]]
                  /\ idx' = [m \in Node |-> IF m = a \/ m = v THEN 0 ELSE idx[m]]
             ELSE LET old == args[p][k].ids IN
                  IF i \notin DOMAIN old          \* stale position: set returns early
                  THEN /\ args' = args
                       /\ parent' = [parent EXCEPT ![a] = None]
                       /\ akey' = [akey EXCEPT ![a] = ""]
                       /\ idx' = [idx EXCEPT ![a] = 0]
                  ELSE LET new == IF v = None THEN SubSeq(old, 1, i - 1) \o SubSeq(old, i + 1, Len(old))
                                  ELSE [old EXCEPT ![i] = v]
                           idx1 == IF v = None
                                   THEN [m \in Node |-> IF \E j \in (i + 1)..Len(old) : old[j] = m THEN idx[m] - 1 ELSE idx[m]]
                                   ELSE SetIdx(idx, new)
                           par1 == IF v = None THEN parent ELSE SetPtr(parent, new, p)
                           key1 == IF v = None THEN akey ELSE SetPtr(akey, new, k)
                       IN /\ args' = [args EXCEPT ![p][k] = ListArg(new)]
                          /\ parent' = [par1 EXCEPT ![a] = None]
                          /\ akey' = [key1 EXCEPT ![a] = ""]
                          /\ idx' = [idx1 EXCEPT ![a] = 0]
    /\ UNCHANGED <<used, cls, val, quo>>
    /\ Step([op |-> IF v = None THEN "pop" ELSE "replace", n |-> a, k |-> "", v |-> IF v = None THEN <<>> ELSE <<v>>, i |-> 0, ow |-> TRUE, s |-> ""])

\* set(k, scalar) on a leaf: k = "this" (s = "" is set(k, None), which pops the key) or k = "quoted"
SetLeaf(n, k, s) ==
    /\ n \in used /\ ~Inner(n)
    /\ \/ k = "this" /\ s \in {"", "x", "X"} /\ val' = [val EXCEPT ![n] = s] /\ quo' = quo
       \/ k = "quoted" /\ s \in {"", "T"} /\ quo' = [quo EXCEPT ![n] = s] /\ val' = val
    /\ hc' = Invalidate(n)
    /\ UNCHANGED <<used, cls, args, parent, akey, idx>>
    /\ Step([op |-> "setleaf", n |-> n, k |-> k, v |-> <<>>, i |-> 0, ow |-> TRUE, s |-> s])

\* hash(n): fills the cache of n and of everything reachable through uncached nodes
HashNode(n) ==
    /\ n \in used
    /\ LET u == Uncached(n, hc, N + 1)
       IN hc' = [m \in Node |-> IF m \in u THEN HashF(m, hc, N + 1) ELSE hc[m]]
    /\ UNCHANGED <<used, cls, val, quo, args, parent, akey, idx>>
    /\ Step([op |-> "hash", n |-> n, k |-> "", v |-> <<>>, i |-> 0, ow |-> TRUE, s |-> ""])

(* copy(): iterative deepcopy. New ids are the smallest free ones in the order the *)
(* code's explicit stack pops them.  The cached hash is copied first and cleared     *)
(* again by the copy's own set/append calls, so only childless nodes keep it.        *)
RECURSIVE PreOrder(_, _)
PreOrder(n, fuel) ==   \* order in which __deepcopy__ pops nodes: LIFO over args in dict order
    IF fuel = 0 THEN <<n>>
    ELSE LET kids == args[n]["this"].ids \o args[n]["expression"].ids \o args[n][LKey].ids
             RECURSIVE Walk(_)
             Walk(j) == IF j = 0 THEN <<>> ELSE PreOrder(kids[j], fuel - 1) \o Walk(j - 1)
         IN <<n>> \o Walk(Len(kids))

FreeIds == Node \ used
RECURSIVE SortedSeq(_)
SortedSeq(S) == IF S = {} THEN <<>> ELSE LET m == CHOOSE x \in S : \A y \in S : x <= y IN <<m>> \o SortedSeq(S \ {m})

CopyMap(n) ==
    LET order == PreOrder(n, N)
        free  == SortedSeq(FreeIds)
    IN [m \in Node |-> IF \E i \in DOMAIN order : order[i] = m
                       THEN free[CHOOSE i \in DOMAIN order : order[i] = m] ELSE None]

CopyOf(n) ==
    /\ n \in used
    /\ LET order == PreOrder(n, N) IN
          /\ Len(order) <= Cardinality(FreeIds)
          /\ \A i, j \in DOMAIN order : i # j => order[i] # order[j]     \* a tree (no sharing below n)
    /\ LET map == CopyMap(n)
           new == { map[m] : m \in Descendants(n) }
           src(c) == CHOOSE m \in Node : map[m] = c
           mapseq(s) == [i \in DOMAIN s |-> map[s[i]]]
       IN /\ used' = used \cup new
          /\ cls' = [c \in Node |-> IF c \in new THEN cls[src(c)] ELSE cls[c]]
          /\ val' = [c \in Node |-> IF c \in new THEN val[src(c)] ELSE val[c]]
          /\ quo' = [c \in Node |-> IF c \in new THEN quo[src(c)] ELSE quo[c]]
          /\ args' = [c \in Node |-> IF c \in new
                          THEN [k \in Keys |-> [t |-> args[src(c)][k].t, ids |-> mapseq(args[src(c)][k].ids)]]
                          ELSE args[c]]
          /\ parent' = [c \in Node |-> IF c \in new THEN (IF src(c) = n THEN None ELSE map[parent[src(c)]]) ELSE parent[c]]
          /\ akey' = [c \in Node |-> IF c \in new THEN (IF src(c) = n THEN "" ELSE akey[src(c)]) ELSE akey[c]]
          /\ idx' = [c \in Node |-> IF c \in new THEN (IF src(c) = n THEN 0 ELSE idx[src(c)]) ELSE idx[c]]
          /\ hc' = [c \in Node |-> IF c \in new
                        THEN (IF Variant = "copy_keeps_hash" \/ ChildIds(src(c)) = {} THEN hc[src(c)] ELSE NoHash)
                        ELSE hc[c]]
          /\ Step([op |-> "copy", n |-> n, k |-> "", v |-> <<map[n]>>, i |-> 0, ow |-> TRUE, s |-> ""])

\* outside the contract: a value that is still stored elsewhere (enabled only with Variant = "attached")
SetAttached(n, k, v) ==
    /\ Variant = "attached"
    /\ n \in used /\ Inner(n) /\ k \in SlotsOf(n) /\ k \in SKeys /\ v \in used /\ Stored(v) /\ n \notin Descendants(v)
    /\ hc' = Invalidate(n)
    /\ args' = [args EXCEPT ![n][k] = NodeArg(v)]
    /\ parent' = [parent EXCEPT ![v] = n]
    /\ akey' = [akey EXCEPT ![v] = k]
    /\ idx' = [idx EXCEPT ![v] = 0]
    /\ UNCHANGED <<used, cls, val, quo>>
    /\ Step([op |-> "set", n |-> n, k |-> k, v |-> <<v>>, i |-> 0, ow |-> TRUE, s |-> ""])

Pairs == { vs \in Node \X Node : vs[1] # vs[2] }

Init ==
    /\ used = 1..Len(InitCls)
    /\ cls = [n \in Node |-> IF n <= Len(InitCls) THEN InitCls[n] ELSE ""]
    /\ val = [n \in Node |-> IF n <= Len(InitVal) THEN InitVal[n] ELSE ""]
    /\ quo = [n \in Node |-> ""]
    /\ args = [n \in Node |-> [k \in Keys |-> IF n <= Len(InitCls) /\ InitCls[n] = "V" /\ k = LKey /\ EmptyLists THEN ListArg(<<>>) ELSE NoArg]]
    /\ parent = [n \in Node |-> None]
    /\ akey = [n \in Node |-> ""]
    /\ idx = [n \in Node |-> 0]
    /\ hc = [n \in Node |-> NoHash]
    /\ nops = 0
    /\ act = [op |-> "init", n |-> 0, k |-> "", v |-> <<>>, i |-> 0, ow |-> TRUE, s |-> ""]
    /\ hist = <<>>

Next ==
    \/ \E n \in Node, k \in SKeys, v \in Node : SetScalar(n, k, v)
    \/ \E n \in Node, k \in Keys : SetNone(n, k)
    \/ \E n \in Node, v \in Node : SetList(n, <<v>>)
    \/ \E n \in Node, vs \in Pairs : SetList(n, vs)
    \/ \E n \in Node, i \in 1..N, v \in Node, ow \in BOOLEAN : SetIdxWrite(n, i, v, ow)
    \/ \E n \in Node, i \in 1..N : SetIdxNone(n, i)
    \/ \E n \in Node, i \in 1..N, vs \in Pairs : SetIdxList(n, i, vs)
    \/ \E n \in Node, i \in 1..2, v \in Node : SetIdxOutOfRange(n, i, v)
    \/ \E n \in Node, k \in Keys, v \in Node : AppendTo(n, k, v)
    \/ \E a \in Node, v \in Node \cup {None} : ReplaceWith(a, v)
    \/ \E n \in Node : HashNode(n)
    \/ \E n \in Node, k \in {"this", "quoted"}, sv \in {"", "x", "X", "T"} : SetLeaf(n, k, sv)
    \/ \E n \in Node : CopyOf(n)
    \/ \E n \in Node, k \in SKeys, v \in Node : SetAttached(n, k, v)

Spec == Init /\ [][Next]_vars

(* ------------------------------ properties ------------------------------ *)
\* all occupied positions <<container, argument name, position>> and the child stored there
Slots == UNION { { <<p[1], p[2], i>> : i \in DOMAIN args[p[1]][p[2]].ids } : p \in used \X Keys }
SlotChild(s) == args[s[1]][s[2]].ids[s[3]]
NodeSlots == { s \in Slots : SlotChild(s) # None }

\* every stored child records exactly its container, argument name and position
LinkBad == { s \in NodeSlots : LET c == SlotChild(s) IN
               ~ ( /\ parent[c] = s[1] /\ akey[c] = s[2]
                   /\ idx[c] = IF args[s[1]][s[2]].t = "list" THEN s[3] ELSE 0 ) }
LinkOK == LinkBad = {}

\* no node stored in two slots, and storage is acyclic (every node hangs below a node stored nowhere)
RECURSIVE Reach(_, _)
Reach(front, seen) == IF front = {} THEN seen
                      ELSE LET nxt == (UNION { ChildIds(n) : n \in front }) \ seen IN Reach(nxt, seen \cup nxt)
StoredNodes == { SlotChild(s) : s \in NodeSlots }
NoSharing == /\ Cardinality(StoredNodes) = Cardinality(NodeSlots)
             /\ LET roots == used \ StoredNodes IN Reach(roots, roots) = used

\* a cached hash is the hash recomputed from scratch
HashOK == \A n \in used : hc[n] # NoHash => hc[n] = Struct(n)

\* auxiliary: under a cached node everything is cached (why the early stop of Invalidate is sound)
HashClosed == \A n \in used : hc[n] # NoHash => \A c \in ChildIds(n) : hc[c] # NoHash

\* __eq__ (same class and same hash) decides structural equality, for the nodes whose hash is cached
EqCorrect == \A a, b \in used : (hc[a] # NoHash /\ hc[b] # NoHash) =>
                ((cls[a] = cls[b] /\ hc[a] = hc[b]) <=> Struct(a) = Struct(b))

TypeOK == /\ used \subseteq Node
          /\ \A n \in used : \A k \in Keys : args[n][k].t \in {"none", "node", "list"}
          /\ \A n \in Node \ used : \A k \in Keys : args[n][k] = NoArg

(* transition emission for the replay driver: ACTION_CONSTRAINT Emit *)
Abs == [used |-> used, cls |-> cls, val |-> val, quo |-> quo, args |-> args, parent |-> parent,
        akey |-> akey, idx |-> idx,
        hs |-> [n \in Node |-> IF hc[n] = NoHash THEN "none" ELSE IF hc[n] = Struct(n) THEN "fresh" ELSE "stale"],
        eq |-> { p \in used \X used : p[1] < p[2] /\ cls[p[1]] = cls[p[2]] /\ Struct(p[1]) = Struct(p[2]) }]
Emit == PrintT(ToJson([h |-> hist', s |-> Abs']))
=============================================================================
