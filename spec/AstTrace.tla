----------------------------- MODULE AstTrace -----------------------------
(* Evaluates the invariants of Ast.tla on states *recorded from the real    *)
(* code* (one initial state per recorded tree; no transitions).  A verdict  *)
(* line <<"V", id, LinkOK, NoSharing, HashOK>> is printed per case; the     *)
(* Python side requires exactly one line per case id.                       *)
EXTENDS Ast, IOUtils

VARIABLE cid
Cases == JsonDeserialize(IOEnv.CASES)

Get(c, n, f, dflt) == IF n <= Len(c.nodes) THEN c.nodes[n][f] ELSE dflt

TInit == \E i \in 1..Len(Cases) : LET c == Cases[i] IN
    /\ cid = c.id
    /\ used = 1..Len(c.nodes)
    /\ cls = [n \in Node |-> Get(c, n, "cls", "")]
    /\ val = [n \in Node |-> Get(c, n, "val", "")]
    /\ quo = [n \in Node |-> Get(c, n, "quo", "")]
    /\ args = [n \in Node |-> [k \in Keys |->
                 IF n <= Len(c.nodes) /\ k \in DOMAIN c.nodes[n].args
                 THEN [t |-> c.nodes[n].args[k].t, ids |-> c.nodes[n].args[k].ids] ELSE NoArg]]
    /\ parent = [n \in Node |-> Get(c, n, "parent", 0)]
    /\ akey = [n \in Node |-> Get(c, n, "akey", "")]
    /\ idx = [n \in Node |-> Get(c, n, "idx", 0)]
    /\ hc = [n \in Node |-> LET h == Get(c, n, "hs", "none") IN
                IF h = "none" THEN NoHash ELSE IF h = "fresh" THEN Struct(n) ELSE <<"stale">>]
    /\ nops = 0
    /\ act = [op |-> "init", n |-> 0, k |-> "", v |-> <<>>, i |-> 0, ow |-> TRUE, s |-> ""]
    /\ hist = <<>>

TNext == UNCHANGED <<vars, cid>>

HashBad == { n \in used : hc[n] # NoHash /\ hc[n] # Struct(n) }
MinOr0(S) == IF S = {} THEN 0 ELSE CHOOSE x \in S : \A y \in S : x <= y
\* one short line per case (long values would be wrapped by TLC's pretty printer): clauses + one witness each
Verdict == PrintT(<<"V", cid, LinkOK, NoSharing, HashOK, MinOr0({ SlotChild(s) : s \in LinkBad }), MinOr0(HashBad)>>)
=============================================================================
