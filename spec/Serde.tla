------------------------------- MODULE Serde -------------------------------
(***************************************************************************)
(* sqlglot.serde.dump / load over the node store of Ast.tla.               *)
(* dump: iterative pre-order flattening; each payload carries the index of *)
(* its parent payload, the argument name and the array flag.  load: walks  *)
(* the payloads in order and re-attaches each node with append (array) or  *)
(* set (scalar) -- i.e. through the same mutators Ast.tla models.          *)
(* The trees come from Ast.tla itself: every store reachable by a history  *)
(* of public mutations is dumped and loaded (invariant RoundTrip).         *)
(***************************************************************************)
EXTENDS Ast

CONSTANT SerdeVariant   \* "code" | "no_array_flag_singleton" | "parent_off_by_one" | "children_reversed"

ArgOrder == <<"this", "expression", LKey>>     \* dict order is not modelled: a fixed order stands for it

\* exact shape: like Struct but keeps scalar-vs-list (absent and empty list are the same: dump drops both)
RECURSIVE ShapeF(_, _)
ShapeF(n, fuel) ==
    IF n = None THEN <<"~">>
    ELSE IF fuel = 0 THEN <<"cycle">>
    ELSE <<cls[n], val[n], quo[n],
           [k \in SKeys \cup {LKey} |->
               IF args[n][k].ids = <<>> THEN <<"none">>
               ELSE <<args[n][k].t, [i \in DOMAIN args[n][k].ids |-> ShapeF(args[n][k].ids[i], fuel - 1)]>>]>>
Shape(n) == ShapeF(n, N)

\* ---- dump ----
\* payload: [i parent payload index (0 = root), k arg name, a array flag, n the node it describes]
RECURSIVE DumpF(_, _, _, _, _, _)
DumpF(n, pi, k, a, offset, fuel) ==       \* offset = index this payload will get (1-based)
    LET me == [i |-> pi, k |-> k, a |-> a, n |-> n]
        kids == \* <<child, key, array flag>> in the order the code pops them
            LET one(key) == [j \in DOMAIN args[n][key].ids |->
                                <<args[n][key].ids[j], key,
                                  IF SerdeVariant = "no_array_flag_singleton" /\ Len(args[n][key].ids) = 1 THEN FALSE
                                  ELSE args[n][key].t = "list">>]
                seq == one(ArgOrder[1]) \o one(ArgOrder[2]) \o one(ArgOrder[3])
            IN IF SerdeVariant = "children_reversed" THEN [j \in DOMAIN seq |-> seq[Len(seq) + 1 - j]] ELSE seq
        RECURSIVE Kids(_, _)
        Kids(j, off) == IF j > Len(kids) \/ fuel = 0 THEN <<>>
                        ELSE LET d == DumpF(kids[j][1], IF SerdeVariant = "parent_off_by_one" /\ offset > 1 THEN offset - 1 ELSE offset,
                                            kids[j][2], kids[j][3], off, fuel - 1)
                             IN d \o Kids(j + 1, off + Len(d))
    IN <<me>> \o Kids(1, offset + 1)
Dump(n) == DumpF(n, 0, "", FALSE, 1, N)

\* ---- load: rebuild the shape from the payloads alone ----
\* children of payload p for key k, in payload order
ChildrenOf(pl, p, k) == SelectSeq([j \in 1..Len(pl) |-> j], LAMBDA j : pl[j].i = p /\ pl[j].k = k)
RECURSIVE LoadShape(_, _, _)
LoadShape(pl, p, fuel) ==
    IF fuel = 0 THEN <<"cycle">>
    ELSE LET nd == pl[p].n IN
         <<cls[nd], val[nd], quo[nd],
           [k \in SKeys \cup {LKey} |->
               LET ch == ChildrenOf(pl, p, k) IN
               IF ch = <<>> THEN <<"none">>
               ELSE \* load(): append for array payloads (creates the list), set for scalar ones (last one wins)
                    IF pl[ch[1]].a THEN <<"list", [j \in DOMAIN ch |-> LoadShape(pl, ch[j], fuel - 1)]>>
                    ELSE <<"node", <<LoadShape(pl, ch[Len(ch)], fuel - 1)>>>>]>>

Tree(n) == \A i, j \in DOMAIN Dump(n) : i # j => Dump(n)[i].n # Dump(n)[j].n

\* the property at model level: for every node of every reachable store, load(dump(n)) has exactly n's shape
RoundTrip == \A n \in used : Tree(n) => LoadShape(Dump(n), 1, N + 1) = Shape(n)
Roots == { n \in used : ~Stored(n) }
DumpRel(n) == { <<IF p.i = 0 THEN 0 ELSE Dump(n)[p.i].n, p.k, p.a, p.n>> : p \in { Dump(n)[j] : j \in DOMAIN Dump(n) } }
EmitD == PrintT(ToJson([h |-> hist', d |-> { [r |-> n, rel |-> DumpRel(n)'] : n \in Roots' }]))
=============================================================================
