---------------------------- MODULE LineageTrace ----------------------------
(* Acceptor for recorded runs of sqlglot.lineage.lineage (code -> spec).  A case *)
(* carries the view DAG exactly as Lineage.tla emitted it and, for the query     *)
(* (the last definition), what one or more presentations of it reported: the     *)
(* output names and, per output column, the leaves of the lineage graph as       *)
(* <<table, column>> pairs (table "?" = an unresolved / star leaf).  TLC         *)
(* computes Out from the DAG and names the first failing clause.                 *)
EXTENDS LineageSem, Json, IOUtils

VARIABLE i
Cases == JsonDeserialize(IOEnv.CASES)

Want(c) == Out(c.defs, Len(c.defs))
Raised(c) == c.outcome # "ok"
\* the order of output columns is qualify's business (C10); lineage is asked per name
ObsOf(c, j) == LET nm == Want(c)[j].name IN c.obs[CHOOSE k \in DOMAIN c.obs : c.obs[k].name = nm]
ObsLv(c, j) == Range(ObsOf(c, j).lv)
NamesBad(c) == { c.obs[k].name : k \in DOMAIN c.obs } # Range(NamesOf(Want(c))) \/ Len(c.obs) # Len(Want(c))
Cols(c) == 1..Len(Want(c))
Unresolved(c) == { j \in Cols(c) : \E l \in ObsLv(c, j) : l[1] = "?" }
Missing(c) == { j \in Cols(c) : Want(c)[j].lv \ ObsLv(c, j) # {} }
Extra(c) == { j \in Cols(c) : ObsLv(c, j) \ Want(c)[j].lv # {} }
Min(S) == CHOOSE x \in S : \A y \in S : x <= y
Judge(c) == IF Raised(c) THEN <<"Raised", 0>>
            ELSE IF NamesBad(c) THEN <<"Names", 0>>
            ELSE IF Unresolved(c) # {} THEN <<"Unresolved", Min(Unresolved(c))>>
            ELSE IF Missing(c) # {} THEN <<"Missing", Min(Missing(c))>>
            ELSE IF Extra(c) # {} THEN <<"Extra", Min(Extra(c))>>
            ELSE <<"OK", 0>>

Init == i \in 1..Len(Cases)
Next == UNCHANGED i
Verdict == PrintT(<<"V", Cases[i].id, Judge(Cases[i])[1], Judge(Cases[i])[2]>>)
=============================================================================
