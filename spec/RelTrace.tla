------------------------------ MODULE RelTrace ------------------------------
(* Acceptor for recorded query executions (code -> spec).  A case holds one   *)
(* query term, one database and a sequence of runs: the rows (and column      *)
(* names) obtained for that query by different means -- the original text on  *)
(* an engine, the text after each optimizer rule, the transpiled text on the  *)
(* other engine, sqlglot's Python executor.  Clauses:                         *)
(*   SameRows   every run returns the rows of run 1 (bag; sequence if the     *)
(*              query's ORDER BY is total)                                    *)
(*   SameNames  every run returns the column names of run 1                   *)
(*   Calibrated (reported, not a verdict) RelSem's Sem(q, db) equals run 1    *)
EXTENDS RelSem, Json, IOUtils

VARIABLE i
Cases == JsonDeserialize(IOEnv.CASES)

RowsEq(c, r1, r2) == IF c.ordered THEN r1 = r2 ELSE BagEq(r1, r2)
BadRows(c)  == { k \in 2..Len(c.runs) : c.runs[k].ok /\ ~RowsEq(c, c.runs[1].rows, c.runs[k].rows) }
BadNames(c) == { k \in 2..Len(c.runs) : c.runs[k].ok /\ c.checknames /\ c.runs[k].names # c.runs[1].names }
MinOr0(S) == IF S = {} THEN 0 ELSE CHOOSE x \in S : \A y \in S : x <= y
Calibrated(c) == IF ~c.calibrate THEN "skip"
                 ELSE LET r == Sem(c.q, <<>>, c.db) IN
                      IF RowsEq(c, r.rows, c.runs[1].rows) THEN "yes" ELSE "no"
FirstBad(c) == IF BadRows(c) # {} THEN "SameRows" ELSE IF BadNames(c) # {} THEN "SameNames" ELSE "OK"

Init == i \in 1..Len(Cases)
Next == UNCHANGED i
RECURSIVE Mask(_)
Mask(S) == IF S = {} THEN 0 ELSE LET x == CHOOSE x \in S : TRUE IN 2 ^ x + Mask(S \ {x})
\* <<"V", id, first failing clause, bit mask of the runs whose rows differ from run 1, same for names, calibration>>
Verdict == PrintT(<<"V", Cases[i].id, FirstBad(Cases[i]), Mask(BadRows(Cases[i])), Mask(BadNames(Cases[i])), Calibrated(Cases[i])>>)
=============================================================================
