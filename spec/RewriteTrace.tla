---------------------------- MODULE RewriteTrace ----------------------------
(* Acceptor for recorded rewrites (code -> spec): each case is a pair of     *)
(* terms (the input and output of simplify / normalize, or of one rule       *)
(* application reported by the guarded hook), the columns with their domains *)
(* and, for normalize, the requested normal form.  TLC evaluates both terms  *)
(* under every assignment with the three-valued semantics of SqlSem.         *)
EXTENDS SqlSem, Json, IOUtils

VARIABLE i
Cases == JsonDeserialize(IOEnv.CASES)

Envs(c) == EnvsOf(c.cols, c.dom)
BadEnvs(c) == { env \in Envs(c) : Ev(c.e1, env) # Ev(c.e2, env) }
Code(v) == IF v[1] = "N" THEN -99 ELSE IF v[1] = "E" THEN -98 ELSE v[2]
Witness(c) == IF BadEnvs(c) = {} THEN <<>>
              ELSE LET env == CHOOSE x \in BadEnvs(c) : TRUE
                   IN [k \in DOMAIN c.cols |-> Code(env[c.cols[k]])] \o <<Code(Ev(c.e1, env)), Code(Ev(c.e2, env))>>
NFOK(c) == \/ c.nf = ""
           \/ c.same
           \/ (c.nf = "cnf" /\ IsCNF(c.e2))
           \/ (c.nf = "dnf" /\ IsDNF(c.e2))
FirstBad(c) == IF BadEnvs(c) # {} THEN "NotEquivalent" ELSE IF ~NFOK(c) THEN "NotNormalForm" ELSE "OK"

Init == i \in 1..Len(Cases)
Next == UNCHANGED i
Verdict == PrintT(<<"V", Cases[i].id, FirstBad(Cases[i]), Witness(Cases[i])>>)
=============================================================================
