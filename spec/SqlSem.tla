------------------------------- MODULE SqlSem -------------------------------
(***************************************************************************)
(* Three-valued scalar semantics of the SQL fragment that sqlglot's         *)
(* simplifier and normal-form rewriter work on.  Expressions are terms      *)
(* <<tag, args...>> (the JSON form the drivers produce from sqlglot trees); *)
(* values are tagged pairs <<"N",0>> (NULL), <<"B",0|1>>, <<"I",n>>.        *)
(* <<"E",0>> is a type error; it propagates and is distinct from NULL.      *)
(***************************************************************************)
EXTENDS Integers, Sequences, FiniteSets, TLC

NULL  == <<"N", 0>>
TRUE3 == <<"B", 1>>
FALSE3 == <<"B", 0>>
ERR   == <<"E", 0>>
B(x)  == IF x THEN TRUE3 ELSE FALSE3
I(n)  == <<"I", n>>
IsNull(v) == v[1] = "N"
IsErr(v)  == v[1] = "E"

\* Kleene connectives on {TRUE, FALSE, NULL}
And3(a, b) == IF IsErr(a) \/ IsErr(b) THEN ERR
              ELSE IF a = FALSE3 \/ b = FALSE3 THEN FALSE3
              ELSE IF IsNull(a) \/ IsNull(b) THEN NULL
              ELSE IF a[1] = "B" /\ b[1] = "B" THEN TRUE3 ELSE ERR
Or3(a, b)  == IF IsErr(a) \/ IsErr(b) THEN ERR
              ELSE IF a = TRUE3 \/ b = TRUE3 THEN TRUE3
              ELSE IF IsNull(a) \/ IsNull(b) THEN NULL
              ELSE IF a[1] = "B" /\ b[1] = "B" THEN FALSE3 ELSE ERR
Not3(a)    == IF IsErr(a) THEN ERR ELSE IF IsNull(a) THEN NULL ELSE IF a[1] = "B" THEN B(a[2] = 0) ELSE ERR

\* NULL-propagating comparisons and arithmetic
Cmp(op, a, b) ==
    IF IsErr(a) \/ IsErr(b) THEN ERR
    ELSE IF IsNull(a) \/ IsNull(b) THEN NULL
    ELSE IF a[1] # b[1] THEN ERR
    ELSE CASE op = "eq"  -> B(a[2] = b[2])
           [] op = "neq" -> B(a[2] # b[2])
           [] op = "lt"  -> B(a[2] < b[2])
           [] op = "lte" -> B(a[2] <= b[2])
           [] op = "gt"  -> B(a[2] > b[2])
           [] op = "gte" -> B(a[2] >= b[2])
Arith(op, a, b) ==
    IF IsErr(a) \/ IsErr(b) THEN ERR
    ELSE IF IsNull(a) \/ IsNull(b) THEN NULL
    ELSE IF a[1] # "I" \/ b[1] # "I" THEN ERR
    ELSE CASE op = "add" -> I(a[2] + b[2])
           [] op = "sub" -> I(a[2] - b[2])
           [] op = "mul" -> I(a[2] * b[2])

RECURSIVE Ev(_, _)
RECURSIVE EvIn(_, _, _, _)
RECURSIVE EvCoalesce(_, _, _)
RECURSIVE EvCase(_, _, _, _)
Ev(e, env) ==
    LET t == e[1] IN
    CASE t = "col"  -> env[e[2]]
      [] t = "int"  -> I(e[2])
      [] t = "bool" -> B(e[2] = 1)
      [] t = "null" -> NULL
      [] t = "paren" -> Ev(e[2], env)
      [] t = "and"  -> And3(Ev(e[2], env), Ev(e[3], env))
      [] t = "or"   -> Or3(Ev(e[2], env), Ev(e[3], env))
      [] t = "not"  -> Not3(Ev(e[2], env))
      [] t \in {"eq", "neq", "lt", "lte", "gt", "gte"} -> Cmp(t, Ev(e[2], env), Ev(e[3], env))
      [] t \in {"add", "sub", "mul"} -> Arith(t, Ev(e[2], env), Ev(e[3], env))
      [] t = "neg"  -> Arith("sub", I(0), Ev(e[2], env))
      [] t = "isnull" -> LET v == Ev(e[2], env) IN IF IsErr(v) THEN ERR ELSE B(IsNull(v))
      [] t = "between" -> And3(Cmp("gte", Ev(e[2], env), Ev(e[3], env)), Cmp("lte", Ev(e[2], env), Ev(e[4], env)))
      [] t = "in"   -> EvIn(Ev(e[2], env), e[3], 1, env)
      [] t = "coalesce" -> EvCoalesce(e[2], 1, env)
      [] t = "case" -> EvCase(e[2], e[3], 1, env)
      [] t = "if"   -> LET c == Ev(e[2], env) IN IF IsErr(c) THEN ERR ELSE IF c = TRUE3 THEN Ev(e[3], env) ELSE Ev(e[4], env)
      [] t = "none" -> NULL
      [] OTHER -> ERR
\* x IN (v1, ..): x = v1 OR x = v2 ...
EvIn(x, vs, j, env) == IF j > Len(vs) THEN FALSE3 ELSE Or3(Cmp("eq", x, Ev(vs[j], env)), EvIn(x, vs, j + 1, env))
EvCoalesce(xs, j, env) == IF j > Len(xs) THEN NULL
                          ELSE LET v == Ev(xs[j], env) IN IF IsNull(v) THEN EvCoalesce(xs, j + 1, env) ELSE v
\* searched CASE: the first branch whose condition is TRUE
EvCase(whens, els, j, env) ==
    IF j > Len(whens) THEN Ev(els, env)
    ELSE LET c == Ev(whens[j][1], env) IN
         IF IsErr(c) THEN ERR ELSE IF c = TRUE3 THEN Ev(whens[j][2], env) ELSE EvCase(whens, els, j + 1, env)

(* environments: all assignments of the listed columns from their domains *)
RECURSIVE EnvsOf(_, _)
EnvsOf(cols, dom) ==      \* cols: sequence of column names; dom: record col -> sequence of values
    IF cols = <<>> THEN { <<>> }
    ELSE LET rest == EnvsOf(Tail(cols), dom)
             c == Head(cols)
         IN { [x \in {c} |-> dom[c][k]] @@ r : k \in DOMAIN dom[c], r \in rest }

Equivalent(e1, e2, cols, dom) == \A env \in EnvsOf(cols, dom) : Ev(e1, env) = Ev(e2, env)

(* normal forms, modulo parentheses *)
RECURSIVE Strip(_)
Strip(e) == IF e[1] = "paren" THEN Strip(e[2]) ELSE e
IsConn(e) == Strip(e)[1] \in {"and", "or"}
RECURSIVE FlatOf(_, _)
FlatOf(op, e) == LET s == Strip(e) IN IF s[1] = op THEN FlatOf(op, s[2]) \cup FlatOf(op, s[3]) ELSE {s}
\* CNF: a conjunction of disjunctions of non-connectors; DNF dually
IsCNF(e) == \A cl \in FlatOf("and", e) : \A lit \in FlatOf("or", cl) : ~IsConn(lit)
IsDNF(e) == \A cl \in FlatOf("or", e) : \A lit \in FlatOf("and", cl) : ~IsConn(lit)
=============================================================================
