----------------------------- MODULE QuoteTrace -----------------------------
(* Acceptor for recorded generate-then-tokenize runs (code -> spec).  A case:  *)
(* the value v (code points) placed into a statement through the builder API    *)
(* as a string literal / quoted identifier / comment, and the tokens the        *)
(* dialect's tokenizer returns for the generated SQL.                           *)
EXTENDS Naturals, Sequences, FiniteSets, TLC, Json, IOUtils

VARIABLE i
Cases == JsonDeserialize(IOEnv.CASES)

Kinds(c) == [k \in DOMAIN c.toks |-> c.toks[k].k]
\* string / identifier: the statement is  SELECT <literal> AS x  /  SELECT <ident> FROM t :
\* exactly the expected token kinds, and the literal token carries exactly v
Lossless(c) == c.tokenized /\ Kinds(c) = c.expect /\ c.toks[c.pos].t = c.v
\* comment: the tokens (kinds and texts) of the statement with the comment equal those without it
Inert(c) == c.tokenized /\ [k \in DOMAIN c.toks |-> <<c.toks[k].k, c.toks[k].t>>] = [k \in DOMAIN c.base |-> <<c.base[k].k, c.base[k].t>>]
FirstBad(c) == IF c.kind = "comment" THEN (IF Inert(c) THEN "OK" ELSE "CommentChangesTokens")
               ELSE IF ~c.tokenized THEN "DoesNotTokenize"
               ELSE IF Kinds(c) # c.expect THEN "Escapes"
               ELSE IF c.toks[c.pos].t # c.v THEN "Lossy" ELSE "OK"

Init == i \in 1..Len(Cases)
Next == UNCHANGED i
Verdict == PrintT(<<"V", Cases[i].id, FirstBad(Cases[i])>>)
=============================================================================
