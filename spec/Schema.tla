------------------------------ MODULE Schema ------------------------------
(***************************************************************************)
(* sqlglot.schema.MappingSchema as a state machine: the registered tables, *)
(* the find cache and the normalised-name cache, with one action per       *)
(* public call.  The reference is the cache-free operator Fresh*: what a   *)
(* schema freshly constructed from the current mapping answers.            *)
(*   Coherent  (invariant)       every cache entry equals the fresh answer *)
(*   AnswersOK (action property) every lookup returns the fresh answer     *)
(* Names are spelled identifiers <<text, style>>; Norm is the dialect's    *)
(* normalisation strategy as schema.normalize_name applies it.             *)
(***************************************************************************)
EXTENDS Naturals, Sequences, FiniteSets, TLC, Json

CONSTANTS Depth,        \* nesting level of the schema: 1 (table), 2 (db.table), 3 (catalog.db.table)
          Strategy,     \* "LOWERCASE" | "UPPERCASE" | "CASE_SENSITIVE" | "CASE_INSENSITIVE" | "CASE_INSENSITIVE_UPPERCASE" | "BQ"
          NormalizeOn,  \* MappingSchema(normalize=...)
          MaxOps,
          Variant,      \* "code" | "evict_two_keys" | "evict_on_new_only" | "name_key_no_quote" | "name_key_no_kind" | "negative_cache"
          Universe,     \* "small" | "wide"
          StyleSet,     \* styles of column arguments explored: subset of {"s", "sq", "i", "iq"}
          ColTexts      \* column spellings used by lookups: subset of {"a", "A", "c"}

(* ---- spelled names ---- *)
\* style: "s" plain string, "sq" string with the dialect's identifier quotes, "i" Identifier object, "iq" quoted Identifier object
Styles == {"s", "sq", "i", "iq"}
Quoted(st) == st \in {"sq", "iq"}
IsObj(st)  == st \in {"i", "iq"}

Lower(x) == CASE x = "T" -> "t" [] x = "U" -> "u" [] x = "D" -> "d" [] x = "E" -> "e" [] x = "A" -> "a" [] x = "C" -> "c" [] x = "K" -> "k" [] OTHER -> x
Upper(x) == CASE x = "t" -> "T" [] x = "u" -> "U" [] x = "d" -> "D" [] x = "e" -> "E" [] x = "a" -> "A" [] x = "c" -> "C" [] x = "k" -> "K" [] OTHER -> x

\* Dialect.normalize_identifier (and the BigQuery override: table parts are case-sensitive, columns fold)
Norm(kind, txt, st) ==
    IF ~NormalizeOn THEN txt
    ELSE CASE Strategy = "CASE_SENSITIVE" -> txt
           [] Strategy = "LOWERCASE" -> IF Quoted(st) THEN txt ELSE Lower(txt)
           [] Strategy = "UPPERCASE" -> IF Quoted(st) THEN txt ELSE Upper(txt)
           [] Strategy = "CASE_INSENSITIVE" -> Lower(txt)
           [] Strategy = "CASE_INSENSITIVE_UPPERCASE" -> Upper(txt)
           [] Strategy = "BQ" -> IF kind = "table" THEN txt ELSE Lower(txt)

TableTexts == IF Universe = "tiny" THEN {"t"} ELSE IF Universe = "small" THEN {"t", "T"} ELSE {"t", "T", "u"}
DbTexts    == IF Universe \in {"tiny", "small"} THEN {"d", "e"} ELSE {"d", "D", "e"}
CatTexts   == {"k"}

\* column sets a table can be registered with: sequences of <<text, type>> (order is the order column_names returns)
ColSets == IF Universe = "tiny" THEN { <<<<"a", "int">>>>, <<<<"a", "int">>, <<"c", "text">>>> }
           ELSE { <<<<"a", "int">>>>, <<<<"a", "int">>, <<"c", "text">>>>, <<<<"A", "text">>>>, <<<<"T", "int">>>> }

\* a table reference as the caller writes it: parts most significant first, one style for the whole reference,
\* (whether it is passed as a string or as an exp.Table object is chosen by the replay driver)
PartsOfLen(n) == CASE n = 1 -> { <<t>> : t \in TableTexts }
                   [] n = 2 -> { <<d, t>> : d \in DbTexts, t \in TableTexts }
                   [] n = 3 -> { <<c, d, t>> : c \in CatTexts, d \in DbTexts, t \in TableTexts }
Refs(lens) == [parts : UNION { PartsOfLen(n) : n \in lens }, q : BOOLEAN]

VARIABLES mapping,   \* function: normalised full path -> sequence of <<normalised column, type>>
          fcache,    \* find cache: set of [key, ensure, cols]   (key = normalised parts as the caller gave them, truncated to Depth)
          ncache,    \* normalised-name cache: set of [k, res]
          ans,       \* last call and its answer: [call, got, want]
          touched,   \* find keys ever looked up: an upper bound of what any cache could still hold. It is part of
                     \* the VIEW so that histories which a *correct* schema cannot tell apart, but a schema with a
                     \* stale cache could, stay distinct states and are all replayed on the implementation.
          nops, hist

vars == <<mapping, fcache, ncache, ans, touched, nops, hist>>
View == <<mapping, fcache, ncache, touched, nops>>

(* ---- normalisation through the name cache (_normalize_name) ---- *)
\* the cache key the code uses; the variants drop a component
NameKey(kind, txt, st) ==
    CASE Variant = "name_key_no_quote" -> <<txt, kind, IF IsObj(st) THEN "" ELSE (IF Quoted(st) THEN "q" ELSE "")>>  \* Identifier inputs keyed by .name only
      [] Variant = "name_key_no_kind"  -> <<txt, "", IF Quoted(st) THEN "q" ELSE "">>
      [] OTHER -> <<txt, kind, IF Quoted(st) THEN "q" ELSE "">>

CachedNorm(nc, kind, txt, st) ==
    LET k == NameKey(kind, txt, st)
        hit == { e \in nc : e.k = k }
    IN IF hit # {} THEN (CHOOSE e \in hit : TRUE).res ELSE Norm(kind, txt, st)

NCacheAdd(nc, kind, txt, st) ==
    LET k == NameKey(kind, txt, st)
    IN IF \E e \in nc : e.k = k THEN nc ELSE nc \cup {[k |-> k, res |-> Norm(kind, txt, st)]}

\* table references are normalised by normalize_name directly (not through the name cache); strings are parsed
NormRef(r) == [i \in DOMAIN r.parts |-> Norm("table", r.parts[i], IF r.q THEN "sq" ELSE "s")]

Suffix(s, n) == SubSeq(s, Len(s) - n + 1, Len(s))
Trunc(k) == IF Len(k) > Depth THEN Suffix(k, Depth) ELSE k

(* ---- the reference: a cache-free schema over the current mapping ---- *)
Matches(map, k) == { p \in DOMAIN map : Suffix(p, Len(k)) = k }
\* find(): "none" | "ambiguous" | [path, cols]
FreshFind(map, k0) ==
    LET k == Trunc(k0)
        m == Matches(map, k)
    IN IF map = <<>> \/ m = {} THEN [r |-> "none"]
       ELSE IF Cardinality(m) > 1 THEN [r |-> "ambiguous"]
       ELSE LET p == CHOOSE p \in m : TRUE IN [r |-> "found", path |-> p, cols |-> map[p]]

ColNamesOf(cols) == [i \in DOMAIN cols |-> cols[i][1]]
TypeOf(cols, c) == IF \E i \in DOMAIN cols : cols[i][1] = c
                   THEN cols[CHOOSE i \in DOMAIN cols : cols[i][1] = c][2] ELSE "unknown"

\* answers of the public calls, given the result f of find (with raise_on_missing as the call passes it)
AnsColumnNames(f) == CASE f.r = "found" -> <<"cols", ColNamesOf(f.cols)>>
                       [] f.r = "ambiguous" -> <<"SchemaError", <<>>>>
                       [] OTHER -> <<"cols", <<>>>>
AnsHasColumn(f, c) == IF f.r = "found" THEN <<"bool", <<IF \E i \in DOMAIN f.cols : f.cols[i][1] = c THEN "T" ELSE "F">>>> ELSE <<"bool", <<"F">>>>
AnsColumnType(f, c) == IF f.r = "found" THEN <<"type", <<TypeOf(f.cols, c)>>>> ELSE <<"type", <<"unknown">>>>

(* ---- find() through the cache, as the code does it ---- *)
\* returns [f |-> result, fc |-> new cache]
CachedFind(fc, map, k0, ensure, raise) ==
    LET k == Trunc(k0)
        hit == { e \in fc : e.key = k /\ e.ensure = ensure }
        neg == Variant = "negative_cache" /\ \E e \in fc : e.key = k /\ e.ensure = ensure /\ e.cols = <<<<"NONE", "">>>>
    IN IF \E e \in hit : e.cols # <<<<"NONE", "">>>>
       THEN LET e == CHOOSE e \in hit : e.cols # <<<<"NONE", "">>>> IN [f |-> [r |-> "found", path |-> <<>>, cols |-> e.cols], fc |-> fc]
       ELSE IF neg THEN [f |-> [r |-> "none"], fc |-> fc]
       ELSE LET f == FreshFind(map, k0)
            IN IF f.r = "found" THEN [f |-> f, fc |-> (fc \ hit) \cup {[key |-> k, ensure |-> ensure, cols |-> f.cols]}]
               ELSE IF f.r = "ambiguous" /\ raise THEN [f |-> f, fc |-> fc]            \* raises before the cache write
               ELSE [f |-> [r |-> "none"], fc |-> (fc \ hit) \cup {[key |-> k, ensure |-> ensure, cols |-> <<<<"NONE", "">>>>]}]

Step(c) == /\ nops < MaxOps /\ nops' = nops + 1 /\ hist' = Append(hist, c)

NormCols(cs) == [i \in DOMAIN cs |-> <<Norm("col", cs[i][1], "s"), cs[i][2]>>]

(* ------------------------------- actions ------------------------------- *)
\* add_table(ref, columns)   (match_depth=True; columns given as a dict of plain strings)
AddTable(r, cs) ==
    LET p == NormRef(r)
        cols == NormCols(cs)
        nc1 == ncache \cup { [k |-> NameKey("col", cs[i][1], "s"), res |-> CachedNorm(ncache, "col", cs[i][1], "s")] : i \in DOMAIN cs }
        call == [op |-> "add_table", parts |-> r.parts, q |-> r.q, cols |-> cs, col |-> "", cst |-> ""]
    IN IF mapping # <<>> /\ Len(p) # Depth
       THEN \* SchemaError: wrong nesting level, nothing changes
            /\ UNCHANGED <<mapping, fcache, ncache, touched>>
            /\ ans' = [call |-> call, got |-> <<"SchemaError", <<>>>>, want |-> <<"SchemaError", <<>>>>]
            /\ Step(call)
       ELSE /\ Len(p) = Depth
            /\ mapping' = [q \in DOMAIN mapping \cup {p} |-> IF q = p THEN [i \in DOMAIN cs |-> <<CachedNorm(ncache, "col", cs[i][1], "s"), cs[i][2]>>] ELSE mapping[q]]
            /\ ncache' = nc1
            /\ fcache' = CASE Variant = "evict_two_keys" -> { e \in fcache : e.key # p }
                           [] Variant = "evict_on_new_only" -> IF p \in DOMAIN mapping THEN { e \in fcache : e.key # p } ELSE {}
                           [] OTHER -> {}
            /\ touched' = touched \cup {p}      \* add_table calls find() on the full key first
            /\ ans' = [call |-> call, got |-> <<"ok", <<>>>>, want |-> <<"ok", <<>>>>]
            /\ Step(call)

\* MappingSchema({path: columns}): the constructor normalises table keys *through the name cache* (is_table=True)
Construct(r, cs) ==
    LET st == IF r.q THEN "sq" ELSE "s"
        p == [i \in DOMAIN r.parts |-> Norm("table", r.parts[i], st)]
        call == [op |-> "construct", parts |-> r.parts, q |-> r.q, cols |-> cs, col |-> "", cst |-> ""]
        nc0 == { [k |-> NameKey("table", r.parts[i], st), res |-> Norm("table", r.parts[i], st)] : i \in DOMAIN r.parts }
        \* columns are normalised after the table keys, through the same cache
        colres(i) == LET k == NameKey("col", cs[i][1], "s") hit == { e \in nc0 : e.k = k }
                     IN IF hit # {} THEN (CHOOSE e \in hit : TRUE).res ELSE Norm("col", cs[i][1], "s")
    IN /\ mapping = <<>> /\ nops = 0 /\ Len(r.parts) = Depth /\ NormalizeOn
       /\ mapping' = [q \in {p} |-> [i \in DOMAIN cs |-> <<colres(i), cs[i][2]>>]]
       /\ ncache' = nc0 \cup { [k |-> NameKey("col", cs[i][1], "s"), res |-> colres(i)] : i \in DOMAIN cs }
       /\ fcache' = {}
       /\ touched' = touched
       /\ ans' = [call |-> call, got |-> <<"ok", <<>>>>, want |-> <<"ok", <<>>>>]
       /\ Step(call)

Lookup(op, r, c, cst) ==
    LET k == NormRef(r)
        raise == op = "column_names"
        cf == CachedFind(fcache, mapping, k, FALSE, raise)
        cn == IF op = "column_names" THEN "" ELSE CachedNorm(ncache, "col", c, cst)
        fresh == FreshFind(mapping, k)
        call == [op |-> op, parts |-> r.parts, q |-> r.q, cols |-> <<>>, col |-> c, cst |-> cst]
        got == CASE op = "column_names" -> AnsColumnNames(cf.f)
                 [] op = "has_column" -> AnsHasColumn(cf.f, cn)
                 [] op = "get_column_type" -> AnsColumnType(cf.f, cn)
        want == CASE op = "column_names" -> AnsColumnNames(fresh)
                  [] op = "has_column" -> AnsHasColumn(IF fresh.r = "ambiguous" THEN [r |-> "none"] ELSE fresh, Norm("col", c, cst))
                  [] op = "get_column_type" -> AnsColumnType(IF fresh.r = "ambiguous" THEN [r |-> "none"] ELSE fresh, Norm("col", c, cst))
    IN /\ fcache' = cf.fc
       /\ ncache' = IF op = "column_names" THEN ncache ELSE NCacheAdd(ncache, "col", c, cst)
       /\ UNCHANGED mapping
       /\ touched' = touched \cup {Trunc(k)}
       /\ ans' = [call |-> call, got |-> got, want |-> want]
       /\ Step(call)

RefLens == IF Depth = 1 THEN {1, 2} ELSE IF Depth = 2 THEN {1, 2} ELSE {1, 2, 3}
AddLens == {Depth} \cup (IF Depth > 1 THEN {Depth - 1} ELSE {})

Init == /\ mapping = <<>> /\ fcache = {} /\ ncache = {} /\ touched = {}
        /\ ans = [call |-> [op |-> "init", parts |-> <<>>, q |-> FALSE, cols |-> <<>>, col |-> "", cst |-> ""], got |-> <<"ok", <<>>>>, want |-> <<"ok", <<>>>>]
        /\ nops = 0 /\ hist = <<>>

Next == \/ \E r \in Refs(AddLens), cs \in ColSets : AddTable(r, cs)
        \/ \E r \in Refs({Depth}), cs \in ColSets : Construct(r, cs)
        \/ \E r \in Refs(RefLens) : Lookup("column_names", r, "", "")
        \/ \E r \in Refs(RefLens), c \in ColTexts, st \in StyleSet : Lookup("has_column", r, c, st)
        \/ \E r \in Refs(RefLens), c \in ColTexts, st \in StyleSet : Lookup("get_column_type", r, c, st)

Spec == Init /\ [][Next]_vars

(* ------------------------------ properties ------------------------------ *)
Coherent == \A e \in fcache : e.cols # <<<<"NONE", "">>>> =>
               LET f == FreshFind(mapping, e.key) IN f.r = "found" /\ f.cols = e.cols
NameCacheOK == \A e \in ncache : TRUE
AnswersOK == [][ans'.got = ans'.want]_vars
AnswerInv == ans.got = ans.want

Emit == PrintT(ToJson([h |-> hist', got |-> ans'.got, want |-> ans'.want]))
=============================================================================
