-------------------------------- MODULE Scope --------------------------------
(***************************************************************************)
(* Name resolution and identifier normalisation as qualify() must perform  *)
(* them, plus the generator of the queries it is exercised on.             *)
(*                                                                         *)
(* Part 1 - identifiers.  Norm(strategy, asciiOnly, quoted, class) is the  *)
(* dialect's normalize_identifier over case classes; TLC checks that it is *)
(* idempotent and leaves case-sensitive identifiers alone.                 *)
(* Part 2 - the query skeletons (one choice per feature).  lib code turns a *)
(* skeleton into SQL *and* into the expected outcome (ok / OptimizeError,   *)
(* the expansion of every star, the output names), following the scoping   *)
(* rules written out in Visible below.                                      *)
(***************************************************************************)
EXTENDS Naturals, Sequences, FiniteSets, TLC, Json, Randomization

(* ---------------------------- identifiers ---------------------------- *)
Strategies == {"LOWERCASE", "UPPERCASE", "CASE_SENSITIVE", "CASE_INSENSITIVE", "CASE_INSENSITIVE_UPPERCASE"}
\* a name is described by the case classes it contains: ASCII lower / ASCII upper / non-ASCII lower / non-ASCII upper
Classes == [al : BOOLEAN, au : BOOLEAN, nl : BOOLEAN, nu : BOOLEAN]
LowerOf(c, asciiOnly) == [al |-> c.al \/ c.au, au |-> FALSE, nl |-> IF asciiOnly THEN c.nl ELSE c.nl \/ c.nu, nu |-> IF asciiOnly THEN c.nu ELSE FALSE]
UpperOf(c, asciiOnly) == [al |-> FALSE, au |-> c.al \/ c.au, nl |-> IF asciiOnly THEN c.nl ELSE FALSE, nu |-> IF asciiOnly THEN c.nu ELSE c.nl \/ c.nu]
Norm(s, asciiOnly, quoted, c) ==
    IF s = "CASE_SENSITIVE" THEN c
    ELSE IF quoted /\ s \in {"LOWERCASE", "UPPERCASE"} THEN c
    ELSE IF s \in {"UPPERCASE", "CASE_INSENSITIVE_UPPERCASE"} THEN UpperOf(c, asciiOnly) ELSE LowerOf(c, asciiOnly)
CaseSensitive(s, quoted) == s = "CASE_SENSITIVE" \/ (quoted /\ s \in {"LOWERCASE", "UPPERCASE"})
Idempotent == \A s \in Strategies, a \in BOOLEAN, q \in BOOLEAN, c \in Classes : Norm(s, a, q, Norm(s, a, q, c)) = Norm(s, a, q, c)
Untouched  == \A s \in Strategies, a \in BOOLEAN, q \in BOOLEAN, c \in Classes : CaseSensitive(s, q) => Norm(s, a, q, c) = c
ASSUME Idempotent /\ Untouched

(* ------------------------------ scoping ------------------------------ *)
\* what is visible where (the rules the driver's independent checker implements):
\*   a SELECT sees its own FROM/JOIN sources and CTEs in scope;
\*   a subquery in WHERE / SELECT / HAVING additionally sees the sources of the enclosing SELECTs (correlation);
\*   a derived table in FROM does NOT see its siblings unless it is LATERAL;
\*   ORDER BY (and GROUP BY / HAVING where the dialect allows) may refer to an output name of the same SELECT.
Kinds == {"select", "derived", "lateral", "where_sub", "cte"}
Inherits(kind) == kind \in {"lateral", "where_sub"}

(* ------------------------------ generator ------------------------------ *)
CONSTANTS K, Focus
Shapes  == {"single", "join", "derived", "cte", "cte_cols", "where_sub", "lateral", "illegal_sibling", "illegal_unknown", "ambiguous", "union", "derived_join"}
Quals   == {"none", "partial", "full"}
Stars   == {"none", "bare", "qualified", "except", "replace", "qualified_replace", "qualified_except"}
Orders  == {"none", "alias", "alias_case", "col", "position", "expr"}
Groups  == {"none", "alias", "col"}
Cases   == {"lower", "upper_unquoted", "mixed_quoted", "nonascii"}
Depths  == {1, 2, 3}
All == [shape : Shapes, qual : Quals, star : Stars, order : Orders, group : Groups, using : BOOLEAN, names : Cases, depth : Depths]
Pool == IF Focus = "all" THEN All ELSE RandomSubset(K, All)
VARIABLE sk
Init == sk \in Pool
Next == UNCHANGED sk
Emit == PrintT(ToJson([sk |-> sk]))
=============================================================================
