---------------------------- MODULE SerdeTrace ----------------------------
(* Acceptor for recorded round trips of real trees (code -> spec): the      *)
(* original tree `a` and the tree `b` that came back from load(dump(a)),    *)
(* from JSON text, from pickle or from copy(), both projected with the same *)
(* depth-first numbering, are compared node by node and field by field.     *)
EXTENDS Naturals, Sequences, FiniteSets, TLC, Json, IOUtils

VARIABLE i
Cases == JsonDeserialize(IOEnv.CASES)

\* the fields compared are named by the case (C12: structure and annotations; C09 adds object identity and links)
NodeDiffF(fs, x, y) == SelectSeq(fs, LAMBDA f : x[f] # y[f])

\* absent and empty list are the same argument (dump drops both); otherwise exact shape
FirstDiff(c) ==
    IF Len(c.a) # Len(c.b) THEN <<"size", 0>>
    ELSE LET bad == { n \in DOMAIN c.a : NodeDiffF(c.fields, c.a[n], c.b[n]) # <<>> }
         IN IF bad = {} THEN <<"", 0>>
            ELSE LET n == CHOOSE x \in bad : \A y \in bad : x <= y IN <<NodeDiffF(c.fields, c.a[n], c.b[n])[1], n>>

Clauses(c) == << <<"SameTree", FirstDiff(c)[1] = "">>,
                 <<"EqHolds", c.eq>>,            \* sqlglot's own == says equal (must agree with SameTree)
                 <<"SameSql", c.sqlsame>>,       \* same SQL text in every dialect tried
                 <<"JsonSafe", c.jsonsafe>>,     \* json.dumps(dump(tree)) succeeded
                 <<"NoShare", c.noshare>> >>     \* the result shares no node object with the original
FirstBad(c) == LET bad == SelectSeq(Clauses(c), LAMBDA p : ~p[2]) IN IF bad = <<>> THEN "OK" ELSE bad[1][1]

Init == i \in 1..Len(Cases)
Next == UNCHANGED i
Verdict == PrintT(<<"V", Cases[i].id, FirstBad(Cases[i]), FirstDiff(Cases[i])[1], FirstDiff(Cases[i])[2]>>)
=============================================================================
