------------------------------ MODULE DiffTrace ------------------------------
(* Acceptor for recorded runs of sqlglot.diff (code -> spec).  A case: the      *)
(* non-identifier nodes of both trees (dense ids with their types), the edit    *)
(* script as <<kind, source id, target id>> (0 = none), the structural          *)
(* projections of both trees (for tree equality, decided here) and the frame    *)
(* flags of the two inputs.                                                     *)
EXTENDS Naturals, Sequences, FiniteSets, TLC, Json, IOUtils

VARIABLE i
Cases == JsonDeserialize(IOEnv.CASES)

Acc(c) == { k \in DOMAIN c.script : c.script[k][1] \in {"remove", "insert", "keep", "update"} }
SrcCount(c, s) == Cardinality({ k \in Acc(c) : c.script[k][2] = s })
TgtCount(c, t) == Cardinality({ k \in Acc(c) : c.script[k][3] = t })
Delta(c) == { k \in DOMAIN c.script : c.script[k][1] # "keep" }
Equal(c) == c.sproj = c.tproj
SType(c, s) == c.stypes[s]
TType(c, t) == c.ttypes[t]

SrcOnce(c) == c.delta_only \/ \A s \in DOMAIN c.stypes : SrcCount(c, s) = 1
TgtOnce(c) == c.delta_only \/ \A t \in DOMAIN c.ttypes : TgtCount(c, t) = 1
\* under delta_only every node appears at most once
AtMostOnce(c) == (\A s \in DOMAIN c.stypes : SrcCount(c, s) <= 1) /\ (\A t \in DOMAIN c.ttypes : TgtCount(c, t) <= 1)
SameType(c) == \A k \in DOMAIN c.script : (c.script[k][1] \in {"keep", "update", "move"} /\ ~c.prematched[k]) => SType(c, c.script[k][2]) = TType(c, c.script[k][3])
InRange(c) == \A k \in DOMAIN c.script : c.script[k][2] \in 0..Len(c.stypes) /\ c.script[k][3] \in 0..Len(c.ttypes)
\* (not demanded when the caller pinned a cross pair of leaves: that legitimately forces Move edits)
EmptyIffEqual(c) == ~c.check_empty \/ ((Delta(c) = {}) <=> Equal(c))
NoKeepInDelta(c) == c.delta_only => \A k \in DOMAIN c.script : c.script[k][1] # "keep"
Frame(c) == c.frame_src /\ c.frame_tgt

Clauses(c) == << <<"InRange", InRange(c)>>, <<"SrcOnce", SrcOnce(c)>>, <<"TgtOnce", TgtOnce(c)>>, <<"AtMostOnce", AtMostOnce(c)>>, <<"SameType", SameType(c)>>,
                 <<"EmptyIffEqual", EmptyIffEqual(c)>>, <<"NoKeepInDelta", NoKeepInDelta(c)>>, <<"Frame", Frame(c)>> >>
FirstBad(c) == LET bad == SelectSeq(Clauses(c), LAMBDA p : ~p[2]) IN IF bad = <<>> THEN "OK" ELSE bad[1][1]

Init == i \in 1..Len(Cases)
Next == UNCHANGED i
Verdict == PrintT(<<"V", Cases[i].id, FirstBad(Cases[i])>>)
=============================================================================
