----------------------------- MODULE CursorTrace -----------------------------
(* Acceptor for recorded parser cursor events (code -> spec): the sequence of   *)
(* _advance(times) calls of the outer Parser with the index before the call and *)
(* the chunk's token count.  Clauses: the cursor stays in range, a backward move *)
(* (_retreat) lands on an index the cursor has already visited in this chunk.    *)
EXTENDS Integers, Sequences, FiniteSets, TLC, Json, IOUtils

VARIABLE i
Cases == JsonDeserialize(IOEnv.CASES)

\* events: [i |-> index before, t |-> times, n |-> token count of the chunk]; index -1 = start of a chunk
RECURSIVE Walk(_, _, _)
Walk(evs, j, maxseen) ==
    IF j > Len(evs) THEN "OK"
    ELSE LET e == evs[j]
             new == e.i + e.t
             ms == IF e.i = -1 THEN -1 ELSE maxseen
         IN IF new < 0 \/ new > e.n + 2 THEN "OutOfRange"
            ELSE IF e.t < 0 /\ new > ms THEN "RetreatForward"
            ELSE Walk(evs, j + 1, IF new > ms THEN new ELSE ms)

Init == i \in 1..Len(Cases)
Next == UNCHANGED i
Verdict == PrintT(<<"V", Cases[i].id, Walk(Cases[i].evs, 1, -1)>>)
=============================================================================
