------------------------------ MODULE ErrTrace ------------------------------
(* Acceptor for quadruples of real runs (one per ErrorLevel) of the same input: *)
(* the hook events of each run must follow the level discipline of ErrLevel.tla *)
(* and the four observable outcomes must be related as the property states.     *)
EXTENDS Naturals, Sequences, FiniteSets, TLC, Json, IOUtils

VARIABLE i
Cases == JsonDeserialize(IOEnv.CASES)
Levels == <<"IGNORE", "WARN", "RAISE", "IMMEDIATE">>

\* level discipline of one run: fold over the events with the stack of saved levels
RECURSIVE Disc(_, _, _, _)
Disc(evs, j, stack, cfg) ==
    IF j > Len(evs) THEN stack = <<>>
    ELSE LET ev == evs[j]
             cur == IF stack = <<>> THEN cfg ELSE "IMMEDIATE"
         IN CASE ev.e = "try_enter" -> ev.lvl = cur /\ Disc(evs, j + 1, Append(stack, cur), cfg)
              [] ev.e = "try_exit"  -> stack # <<>> /\ ev.lvl = stack[Len(stack)] /\ Disc(evs, j + 1, SubSeq(stack, 1, Len(stack) - 1), cfg)
              [] ev.e = "raise_error" -> ev.lvl = cur /\ Disc(evs, j + 1, stack, cfg)
              [] ev.e = "check_errors" -> ev.lvl = cur /\ stack = <<>> /\ Disc(evs, j + 1, stack, cfg)
              [] OTHER -> Disc(evs, j + 1, stack, cfg)
\* a run that raised may stop inside open speculative parses only if the exception is not a ParseError (it cannot: _try_parse catches it)
Discipline(c) == \A k \in 1..4 : LET r == c.runs[k] IN r.tokerr \/ r.crash # "" \/ Disc(r.events, 1, <<>>, Levels[k])

Run(c, l) == c.runs[CHOOSE k \in 1..4 : Levels[k] = l]
SameTokErr(c) == (\E k \in 1..4 : c.runs[k].tokerr) => \A k \in 1..4 : c.runs[k].tokerr /\ c.runs[k].excmsg = c.runs[1].excmsg
NoRaise(c) == Run(c, "IGNORE").exc = "" /\ Run(c, "WARN").exc = ""
SameTrees(c) == Run(c, "IGNORE").out = Run(c, "WARN").out
\* the errors WARN logged at the first statement end that had any
FirstBatch(r) == IF r.batches = <<>> THEN <<>> ELSE r.batches[1]
RaiseIff(c) == LET w == Run(c, "WARN")  r == Run(c, "RAISE") IN
               /\ (r.exc = "ParseError") <=> (w.logged # <<>>)
               /\ r.exc = "ParseError" => r.errs = FirstBatch(w)
               /\ r.exc = "" => r.out = w.out
MsgCap(c) == LET r == Run(c, "RAISE") IN r.exc = "ParseError" =>
               (r.rendered <= c.max_errors /\ (Len(r.errs) <= c.max_errors => r.rendered = Len(r.errs)))
Immediate(c) == LET w == Run(c, "WARN")  m == Run(c, "IMMEDIATE") IN
               /\ (m.exc = "ParseError") <=> (w.collected # <<>>)
               /\ m.exc = "ParseError" => (Len(m.errs) = 1 /\ m.errs[1] = w.collected[1])
               /\ m.exc = "" => m.out = w.out

Clauses(c) == IF \E k \in 1..4 : c.runs[k].tokerr THEN << <<"SameTokErr", SameTokErr(c)>> >>
              ELSE << <<"NoRaise", NoRaise(c)>>, <<"SameTrees", SameTrees(c)>>, <<"RaiseIff", RaiseIff(c)>>, <<"MsgCap", MsgCap(c)>>,
                      <<"Immediate", Immediate(c)>>, <<"Discipline", Discipline(c)>> >>
FirstBad(c) == LET bad == SelectSeq(Clauses(c), LAMBDA p : ~p[2]) IN IF bad = <<>> THEN "OK" ELSE bad[1][1]

(* generation: unsupported_level IGNORE / WARN / RAISE / IMMEDIATE on the same tree *)
GRun(c, l) == c.gruns[CHOOSE k \in 1..4 : Levels[k] = l]
GenClauses(c) ==
    LET ig == GRun(c, "IGNORE")  w == GRun(c, "WARN")  r == GRun(c, "RAISE")  m == GRun(c, "IMMEDIATE") IN
    << <<"GenNoRaise", ig.exc = "" /\ w.exc = "">>,
       <<"GenSameSql", ig.out = w.out /\ (r.exc = "" => r.out = w.out) /\ (m.exc = "" => m.out = w.out)>>,
       <<"GenRaiseIff", ((r.exc = "UnsupportedError") <=> (w.logged # <<>>)) /\ ((m.exc = "UnsupportedError") <=> (w.logged # <<>>))>>,
       <<"GenMsgCap", r.exc = "UnsupportedError" => r.rendered <= c.max_unsupported>>,
       <<"GenFirst", m.exc = "UnsupportedError" => (w.logged # <<>> /\ m.errs = <<w.logged[1]>>)>> >>
GenFirstBad(c) == LET bad == SelectSeq(GenClauses(c), LAMBDA p : ~p[2]) IN IF bad = <<>> THEN "OK" ELSE bad[1][1]

Init == i \in 1..Len(Cases)
Next == UNCHANGED i
Verdict == PrintT(<<"V", Cases[i].id, IF Cases[i].kind = "parse" THEN FirstBad(Cases[i]) ELSE GenFirstBad(Cases[i])>>)
=============================================================================
