CONSTANTS
  N = 5
  Pop = "bvlll"
  MaxOps = 4
  Variant = "code"
  ExtraKeys = {}
INIT Init
NEXT Next
VIEW View
INVARIANT TypeOK
INVARIANT LinkOK
INVARIANT NoSharing
INVARIANT HashOK
INVARIANT HashClosed
INVARIANT EqCorrect
