"""C08 — syntax trees stay structurally consistent under any sequence of edits.

spec/Ast.tla is the model of the mutable tree. This driver
 (1) model-checks it (all invariants, all negative-control variants must break),
 (2) spec -> code: replays every transition TLC emits for the bounded model (plus -simulate walks)
     on real sqlglot objects and compares the projected real state with the model's post-state,
 (3) code -> spec: sends recorded real states (every mismatching replay state, and the trees
     produced by parse / optimizer rules / builders / transform with hash() calls interleaved)
     to AstTrace.tla, where TLC evaluates LinkOK / NoSharing / HashOK on them.
A VIOLATION is raised only when a property clause is false on a real state; a real state that
differs from the model but satisfies the clauses is SPEC-DRIFT.
"""
from __future__ import annotations

import json
import os
import random
from concurrent.futures import ProcessPoolExecutor

from lib import tlc
from lib.tlc import MachineryError

KEYS = ("this", "expression", "expressions")


# ------------------------------------------------------------------------------------------
# spec -> code : replay of model histories on real objects
# ------------------------------------------------------------------------------------------
def _mk(cls, val, empty_lists=False):
    from sqlglot import exp

    if cls == "B":
        return exp.Add()
    if cls == "V":
        return exp.Coalesce(expressions=[]) if empty_lists else exp.Coalesce()
    if cls == "LR":
        return exp.Identifier(this=val)
    if cls == "LF":
        return exp.Var(this=val)
    raise MachineryError(f"unknown model class {cls}")


class Replay:
    def __init__(self, init_cls, init_val, empty_lists=False):
        self.objs = {i + 1: _mk(c, v, empty_lists) for i, (c, v) in enumerate(zip(init_cls, init_val))}
        self.cls = {i + 1: c for i, c in enumerate(init_cls)}

    def oid(self, o):
        if o is None:
            return 0
        for i, x in self.objs.items():
            if x is o:
                return i
        return -1

    def _kids(self, ob):
        out = []
        for k in KEYS:
            v = ob.args.get(k)
            if isinstance(v, list):
                out += [x for x in v if hasattr(x, "args")]
            elif hasattr(v, "args"):
                out.append(v)
        return out

    def _preorder(self, ob):
        """Order in which Ast.tla's CopyOf allocates ids: node, then children last-to-first, each expanded."""
        out = [ob]
        for c in reversed(self._kids(ob)):
            out += self._preorder(c)
        return out

    def bind_copy(self, src, cp, nmax):
        free = [i for i in range(1, nmax + 64) if i not in self.objs]
        pairs = list(zip(self._preorder(src), self._preorder(cp)))
        for (s_ob, c_ob), i in zip(pairs, free):
            self.objs[i] = c_ob
            self.cls[i] = self.cls.get(self.oid(s_ob), "?")

    def apply(self, a):
        o = self.objs
        op, n, k, v, i, ow = a["op"], a["n"], a["k"], a["v"], a["i"], a["ow"]
        if op == "set":
            o[n].set(k, o[v[0]])
        elif op == "setnone":
            o[n].set(k, None)
        elif op == "setlist":
            o[n].set(k, [o[x] for x in v])
        elif op == "setidx":
            o[n].set(k, o[v[0]], index=i - 1, overwrite=ow)
        elif op == "setidxnone":
            o[n].set(k, None, index=i - 1)
        elif op == "setidxlist":
            o[n].set(k, [o[x] for x in v], index=i - 1)
        elif op == "append":
            o[n].append(k, o[v[0]])
        elif op == "replace":
            o[n].replace(o[v[0]])
        elif op == "pop":
            o[n].pop()
        elif op == "setleaf":
            o[n].set(k, (True if a["s"] == "T" else a["s"]) if a["s"] else None)
        elif op == "hash":
            hash(o[n])
        elif op == "copy":
            c = o[n].copy()
            self.bind_copy(o[n], c, len(o))
        else:
            raise MachineryError(f"unknown op {op}")

    def project(self, nmax):
        from lib.astproj import hash_state

        used = sorted(self.objs)
        st = {"used": used, "cls": [], "val": [], "quo": [], "args": [], "parent": [], "akey": [], "idx": [], "hs": []}
        for i in range(1, nmax + 1):
            ob = self.objs.get(i)
            if ob is None:
                st["cls"].append("")
                st["val"].append("")
                st["quo"].append("")
                st["args"].append({k: {"t": "none", "ids": []} for k in KEYS})
                st["parent"].append(0)
                st["akey"].append("")
                st["idx"].append(0)
                st["hs"].append("none")
                continue
            c = self.cls[i]
            st["cls"].append(c)
            st["val"].append((ob.args.get("this") or "") if c in ("LR", "LF") else "")
            st["quo"].append("T" if c in ("LR", "LF") and ob.args.get("quoted") else "")
            a = {}
            for k in KEYS:
                v = ob.args.get(k) if c in ("B", "V") else None
                if v is None or isinstance(v, str):
                    a[k] = {"t": "none", "ids": []}
                elif isinstance(v, list):
                    a[k] = {"t": "list", "ids": [self.oid(x) for x in v]}
                else:
                    a[k] = {"t": "node", "ids": [self.oid(v)]}
            extra = [k for k in ob.args if k not in KEYS and k != "quoted"]
            if extra:
                a["_extra"] = extra
            st["args"].append(a)
            st["parent"].append(self.oid(ob.parent))
            st["akey"].append(ob.arg_key or "")
            st["idx"].append(0 if ob.index is None else ob.index + 1)
            st["hs"].append(hash_state(ob))
        return st

    def eq_pairs(self):
        used = sorted(self.objs)
        out = []
        for x in used:
            for y in used:
                if x < y and self.objs[x] == self.objs[y]:
                    out.append([x, y])
        return out


def _model_state(s):
    return {k: s[k] for k in ("used", "cls", "val", "quo", "args", "parent", "akey", "idx", "hs")}


def _replay_chunk(arg):
    """Worker: replay a chunk of emitted transitions. Returns (n, nontrivial keys, mismatches, eq problems, errors)."""
    import sys

    sys.path.insert(0, os.environ.get("VERIF_REPO", "/repo"))
    lines, init_cls, init_val, nmax, empty = arg
    from lib.guard import HardTimeout, limits, time_limit

    if isinstance(lines, str):
        from lib.spill import load

        lines = load(lines)
    limits()
    mism, eqbad, errs = [], [], []
    nontrivial = 0
    for rec in lines:
        h, s = rec["h"], rec["s"]
        r = Replay(init_cls, init_val, empty)
        try:
            with time_limit(5.0):
                for j, a in enumerate(h):
                    r.apply(a)
                got = r.project(nmax)
        except (RecursionError, MemoryError, HardTimeout) as e:
            errs.append({"h": h, "err": type(e).__name__})
            continue
        except Exception as e:  # a public mutator raising on a history the model allows
            errs.append({"h": h, "err": f"{type(e).__name__}: {e}"})
            continue
        want = _model_state(s)
        ops = [a["op"] for a in h]
        if "hash" in ops and any(o != "hash" for o in ops[ops.index("hash") + 1 :]):
            nontrivial += 1
        if got != want:
            mism.append({"h": h, "want": want, "got": got})
        # equality: real == on all pairs (this fills caches, so it comes last)
        try:
            with time_limit(5.0):
                real_eq = r.eq_pairs()
        except (Exception, HardTimeout) as e:
            errs.append({"h": h, "err": f"eq {type(e).__name__}: {e}"})
            continue
        if sorted(map(tuple, real_eq)) != sorted(map(tuple, s["eq"])):
            eqbad.append({"h": h, "want_eq": s["eq"], "got_eq": real_eq})
    return len(lines), nontrivial, mism, eqbad, errs


POPS = {
    "bvlll": (["B", "V", "LR", "LF", "LR"], ["", "", "x", "X", "y"]),
    "bbvll": (["B", "B", "V", "LR", "LF"], ["", "", "", "x", "X"]),
    "vvlll": (["V", "V", "LR", "LR", "LF"], ["", "", "x", "y", "X"]),
    "bvll": (["B", "V", "LR", "LF"], ["", "", "x", "X"]),
    "bvl": (["B", "V", "LR"], ["", "", "x"]),
    "bbvlll": (["B", "B", "V", "LR", "LF", "LR"], ["", "", "", "x", "X", "x"]),
    "bvlff": (["B", "V", "LF", "LF", "LR"], ["", "", "x", "X", "x"]),
    "vel": (["V", "LR"], ["", "x"]),
    "bvel": (["B", "V", "LR"], ["", "", "x"]),
}
EMPTY_LIST_POPS = ("vel", "bvel")


def write_cfg(path, *, n, pop, maxops, variant="code", emit=False, invariants=True, extra_keys=()):
    lines = [
        "CONSTANTS",
        f"  N = {n}",
        f'  Pop = "{pop}"',
        f"  MaxOps = {maxops}",
        f'  Variant = "{variant}"',
        "  ExtraKeys = {" + ", ".join(f'"{k}"' for k in extra_keys) + "}",
        "INIT Init",
        "NEXT Next",
        "VIEW View",
    ]
    if emit:
        lines.append("ACTION_CONSTRAINT Emit")
    if invariants:
        lines += [f"INVARIANT {i}" for i in ("TypeOK", "LinkOK", "NoSharing", "HashOK", "HashClosed", "EqCorrect")]
    with open(path, "w") as f:
        f.write("\n".join(lines) + "\n")


def _sim_records(files):
    """Parse `tlc -simulate file=...` behaviour files of Ast: we only need hist and Abs of the last state."""
    raise NotImplementedError


def evaluate_real_states(ctx, cases, n, extra_keys=()):
    """code -> spec: TLC (AstTrace) evaluates LinkOK / NoSharing / HashOK on recorded real states.
    Returns {case id: (link, sharing, hash)}."""
    if not cases:
        return {}
    out = {}
    cfgp = os.path.join(ctx.work, f"asttrace_{n}_{len(cases)}_{random.random()}.cfg")
    with open(cfgp, "w") as f:
        f.write(
            "CONSTANTS\n"
            f"  N = {n}\n  Pop = \"none\"\n  MaxOps = 0\n  Variant = \"code\"\n"
            "  ExtraKeys = {" + ", ".join(f'"{k}"' for k in extra_keys) + "}\n"
            "INIT TInit\nNEXT TNext\nINVARIANT Verdict\n"
        )
    casep = cfgp[:-4] + ".json"
    with open(casep, "w") as f:
        json.dump(cases, f)
    res = tlc.run("AstTrace", cfgp, ctx.work, workers=8, timeout_s=1200, env={"CASES": casep}, allow_violation=False)
    import re

    for line in res.tuples:
        m = re.match(r'<<"V", (\d+), (TRUE|FALSE), (TRUE|FALSE), (TRUE|FALSE), (\d+), (\d+)>>', line)
        if m:
            cid = int(m.group(1))
            if cid in out:
                raise MachineryError(f"duplicate verdict for case {cid}")
            out[cid] = tuple(x == "TRUE" for x in m.groups()[1:4]) + (
                [int(m.group(5))] if int(m.group(5)) else [],
                [int(m.group(6))] if int(m.group(6)) else [],
            )
    missing = [c["id"] for c in cases if c["id"] not in out]
    if missing:
        raise MachineryError(f"AstTrace printed no verdict for cases {missing[:5]} ({len(missing)} missing)\n" + "\n".join(l for l in res.stdout.splitlines() if l.startswith("<<"))[:1500])
    ctx.model(res, "AstTrace", cfgp, f"invariants evaluated by TLC on {len(cases)} recorded real states")
    return out


def _state_to_case(cid, st):
    """Replay-projected real state (model vocabulary) -> AstTrace case."""
    nodes = []
    for i in range(len(st["cls"])):
        if (i + 1) not in st["used"]:
            break
        a = {k: v for k, v in st["args"][i].items() if k != "_extra" and v["t"] != "none"}
        nodes.append(
            {
                "cls": st["cls"][i],
                "val": st["val"][i] or "",
                "quo": st["quo"][i] or "",
                "args": a,
                "parent": st["parent"][i],
                "akey": st["akey"][i],
                "idx": st["idx"][i],
                "hs": st["hs"][i],
            }
        )
    return {"id": cid, "nodes": nodes}


CLAUSES = ("LinkOK", "NoSharing", "HashOK")


def replay_emitted(ctx, pop, n, maxops, label):
    cfg = os.path.join(ctx.work, f"emit_{pop}_{n}_{maxops}.cfg")
    write_cfg(cfg, n=n, pop=pop, maxops=maxops, emit=True, invariants=False)
    res = tlc.run("Ast", cfg, ctx.work, workers=16, timeout_s=1500, allow_violation=False)
    ctx.model(res, "Ast", cfg, f"transition emission for replay ({label})")
    recs = res.printed
    if len(recs) != res.generated - 1 and len(recs) != res.generated:
        raise MachineryError(f"emitted {len(recs)} transitions but TLC generated {res.generated} states")
    init_cls, init_val = POPS[pop]
    import gc

    from lib.spill import spill

    nrecs = len(recs)
    samples = [recs[k] for k in range(0, nrecs, max(1, nrecs // 3))][:2]
    paths = spill(ctx.work, f"c08_{pop}_{n}_{maxops}", [recs[i::64] for i in range(64)])
    res.stdout = ""
    res.printed = recs = None  # the workers read their share from disk; nothing large is inherited through fork
    gc.collect()
    tot = nontriv = 0
    mism, eqbad, errs = [], [], []
    with ProcessPoolExecutor(max_workers=16) as ex:
        for cnt, nt, m, e, er in ex.map(_replay_chunk, [(pth, init_cls, init_val, n, pop in EMPTY_LIST_POPS) for pth in paths]):
            tot += cnt
            nontriv += nt
            mism += m
            eqbad += e
            errs += er
    ctx.count(tot, traces=tot)
    for r in samples:
        ctx.sample({"kind": "replayed model history", "pop": pop, "history": r["h"], "model_post_state_hashes": r["s"]["hs"]})
    ctx.notes.setdefault("replay", []).append(
        {"pop": pop, "N": n, "max_ops": maxops, "transitions_replayed": tot, "hash_then_mutate_histories": nontriv,
         "state_mismatches": len(mism), "eq_mismatches": len(eqbad), "exceptions": len(errs)}
    )
    for i in range(nontriv):
        ctx.nontrivial(("replay", pop, maxops, i))
    judge(ctx, pop, mism, eqbad, errs, n)


def judge(ctx, pop, mism, eqbad, errs, n):
    # real states that differ from the model: the property's clauses decide (evaluated by TLC)
    cases = [_state_to_case(i + 1, m["got"]) for i, m in enumerate(mism[:3000])]
    nmax = max([n] + [len(c["nodes"]) for c in cases])
    verdicts = evaluate_real_states(ctx, cases, nmax) if cases else {}
    for i, m in enumerate(mism[:3000]):
        v = verdicts[i + 1]
        bad = [c for c, ok in zip(CLAUSES, v[:3]) if not ok]
        last = m["h"][-1]["op"]
        if bad:
            ctx.violation(
                f"replay:{bad[0]}:{last}",
                f"{bad[0]} is false on the real tree after the public-API history {[a['op'] for a in m['h']]}",
                {"kind": "history", "pop": pop, "history": m["h"], "clauses_false": bad, "real_state": m["got"], "model_state": m["want"]},
            )
        else:
            ctx.drift(f"real state differs from Ast.tla after {[a['op'] for a in m['h']]} (clauses hold)", {"got": m["got"], "want": m["want"]})
    for e in eqbad:
        ctx.violation(
            f"replay:EqCorrect:{e['h'][-1]['op']}",
            f"== disagrees with structural equality after {[a['op'] for a in e['h']]}: real {e['got_eq']} vs structural {e['want_eq']}",
            {"kind": "history", "pop": pop, "history": e["h"], "real_eq_pairs": e["got_eq"], "structural_eq_pairs": e["want_eq"]},
        )
    for e in errs:
        ctx.drift(f"public mutator raised {e['err']} on a history the model allows: {[a['op'] for a in e['h']]}")


# ------------------------------------------------------------------------------------------
# code -> spec : producers (parse, optimizer rules, builders, transform) with hash() interleaved
# ------------------------------------------------------------------------------------------
def _producer_chunk(arg):
    import sys

    sys.path.insert(0, os.environ.get("VERIF_REPO", "/repo"))
    from lib import producers

    return producers.run_chunk(*arg)


def _rename_keys(case):
    """Per case, argument names are renamed to k1..kM (LinkOK only compares names within a case),
    so that Keys stays a small literal cfg constant whatever classes the tree contains."""
    keys = {}
    for nd in case["nodes"]:
        for k in list(nd["args"]) + [nd["akey"]]:
            if k and k not in KEYS:
                keys.setdefault(k, f"k{len(keys) + 1}")
    for nd in case["nodes"]:
        nd["args"] = {keys.get(k, k): v for k, v in nd["args"].items()}
        nd["akey"] = keys.get(nd["akey"], nd["akey"])
        nd["val"] = ""
    return len(keys)


def _witness(case_nodes, verdict):
    """(clause, 'Container.arg>Child') of the first failing clause, from the node ids TLC printed."""
    link_ok, share_ok, hash_ok, link_bad, hash_bad = verdict
    if not link_ok and link_bad:
        c = link_bad[0]
        for nd in case_nodes:
            for k, a in nd["args"].items():
                if c in a["ids"]:
                    return "LinkOK", f"{nd['cls']}.{k}>{case_nodes[c - 1]['cls']}"
        return "LinkOK", case_nodes[c - 1]["cls"]
    if not share_ok:
        return "NoSharing", ""
    if not hash_ok:
        return "HashOK", case_nodes[hash_bad[0] - 1]["cls"] if hash_bad else ""
    return None, ""


def judge_trees(ctx, raw_cases):
    """raw_cases: [{nodes, meta{producer, sql, dialect, hashed, work, wid, stage}}]. TLC evaluates the clauses."""
    cases = []
    metas = {}
    orig = {}
    maxkeys = 0
    for c in raw_cases:
        if len(c["nodes"]) > 400:
            continue
        cid = len(cases) + 1
        metas[cid] = c["meta"]
        orig[cid] = [{"cls": nd["cls"], "args": {k: {"ids": v["ids"]} for k, v in nd["args"].items()}} for nd in c["nodes"]]
        case = {"id": cid, "nodes": c["nodes"]}
        maxkeys = max(maxkeys, _rename_keys(case))
        cases.append(case)
    buckets = {}
    for c in cases:
        sz = len(c["nodes"])
        b = 12 if sz <= 12 else 32 if sz <= 32 else 96 if sz <= 96 else 400
        buckets.setdefault(b, []).append(c)
    verdicts = {}
    xk = [f"k{i}" for i in range(1, maxkeys + 1)]
    for b, cs in sorted(buckets.items()):
        verdicts.update(evaluate_real_states(ctx, cs, b, extra_keys=xk))
    # attribution: a tree that was already inconsistent when the producer received it is the parser's
    bad_inputs = {}
    for cid, v in verdicts.items():
        m = metas[cid]
        if m.get("stage") == "input" and not all(v[:3]):
            bad_inputs[m["wid"]] = cid
    kinds = {}
    for cid, v in sorted(verdicts.items()):
        m = metas[cid]
        kinds[m["producer"]] = kinds.get(m["producer"], 0) + 1
        if m.get("hashed"):
            ctx.nontrivial(("producer", m["producer"], m["sql"], m.get("dialect"), json.dumps(m.get("work"), sort_keys=True)))
        if all(v[:3]):
            continue
        if m.get("stage") == "output" and m["wid"] in bad_inputs:
            continue
        clause, where = _witness(orig[cid], v)
        ctx.violation(
            f"{m['producer']}:{clause}:{where}",
            f"{clause} is false on the tree returned by {m['producer']} for {m['sql'][:160]!r} (dialect {m.get('dialect') or 'base'}): {where}",
            {"kind": "producer", **m, "clause": clause, "where": where},
        )
    return verdicts, metas, kinds


def producers_phase(ctx, budget):
    from lib import producers

    work = producers.plan(ctx.rng, budget)
    for i, w in enumerate(work):
        w["wid"] = i
    chunks = [work[i::16] for i in range(16)]
    raw = []
    with ProcessPoolExecutor(max_workers=16) as ex:
        for cs in ex.map(_producer_chunk, [(c, ctx.seed) for c in chunks if c]):
            raw += cs
    if not raw:
        raise MachineryError("no producer trees")
    verdicts, metas, kinds = judge_trees(ctx, raw)
    ctx.count(len(verdicts), traces=len(verdicts))
    ctx.notes["producers"] = kinds
    ms = [m for m in metas.values() if m.get("stage") == "output"]
    for m in ms[:: max(1, len(ms) // 2)][:2]:
        ctx.sample({"kind": "producer tree checked by AstTrace", **{k: m[k] for k in ("producer", "sql", "dialect")}})


# ------------------------------------------------------------------------------------------
def run(ctx):
    ctx.assumptions += [
        "values handed to set/append/replace are detached and not ancestors of the target (explicit guard Fresh in Ast.tla)",
        "the clone builder lib/astproj.rebuild (constructor calls only) is the 'hash recomputed from scratch' oracle",
        "model classes are bound to exp.Add / exp.Coalesce / exp.Identifier (raw hash) / exp.Var (case-folding hash)",
    ]
    ctx.cov["rule"] = (
        "replay: every transition TLC generates for Ast.tla within the bound is executed on real objects (distinct by "
        "construction: one per (state, action)); non-trivial = the history has a hash() followed by a later mutation. "
        "producers: trees returned by parse_one / optimizer rules / builders / transform with hash()/== calls interleaved; "
        "non-trivial = at least one hash()/== call was interleaved before the tree was recorded."
    )
    # 1. model checking: the invariants on the model as the code is
    big = ctx.thorough
    for pop, n, ops in ([("bvlll", 5, 5), ("bvlff", 5, 4), ("bvel", 6, 4), ("vel", 5, 5)] if big else [("bvlll", 5, 4), ("bvel", 6, 3)]):
        cfg = os.path.join(ctx.work, f"mc_{pop}.cfg")
        write_cfg(cfg, n=n, pop=pop, maxops=ops)
        res = tlc.run("Ast", cfg, ctx.work, workers=16, timeout_s=3000, allow_violation=False, coverage=True)
        ctx.model(res, "Ast", cfg, f"exhaustive, all invariants, pop={pop} N={n} MaxOps={ops}")
        dead = [a for a, (d, t) in res.coverage.items() if t == 0 and a not in ("SetAttached", "Init", "CopyOf")]
        dead = [a for a in dead if not (pop in ("bvl", "vel", "bvel") and a.startswith("Set"))]
        if pop == "bvel" and res.coverage.get("CopyOf", (0, 0))[1] == 0:
            raise MachineryError("CopyOf never taken in the copy configuration (vacuous)")
        if dead:
            raise MachineryError(f"actions never taken in {pop}: {dead}")
    # negative controls: the model must be able to see the failure (non-vacuity of the invariants)
    for variant, expect in (("inval_self_only", "HashOK"), ("no_reindex", "LinkOK"), ("attached", "LinkOK")):
        cfg = os.path.join(ctx.work, f"neg_{variant}.cfg")
        write_cfg(cfg, n=5, pop="bvlll", maxops=4, variant=variant)
        res = tlc.run("Ast", cfg, ctx.work, workers=16, timeout_s=600)
        if expect not in res.violated and not res.violated:
            raise MachineryError(f"negative control {variant} did not violate anything: invariants are vacuous")
        ctx.notes.setdefault("negative_controls", {})[variant] = res.violated
    ctx.notes["t_model_s"] = round(__import__("time").time() - ctx.t0, 1)
    # 2. spec -> code
    if big:
        replay_emitted(ctx, "bvlll", 5, 4, "thorough")
        replay_emitted(ctx, "bvlff", 5, 3, "thorough")
        replay_emitted(ctx, "vvlll", 5, 3, "thorough")
        replay_emitted(ctx, "bbvll", 5, 3, "thorough")
        replay_emitted(ctx, "bvel", 6, 3, "thorough, copy")
        replay_emitted(ctx, "vel", 5, 4, "thorough, copy of empty lists")
    else:
        pops = ["bvlll", "bvlff", "vvlll", "bbvll"]
        replay_emitted(ctx, pops[ctx.seed % len(pops)], 5, 3, "quick")
        replay_emitted(ctx, "bvel", 6, 3, "quick, copy")
        replay_emitted(ctx, "vel", 4, 4, "quick, copy of empty lists")
    ctx.cov["exhaustive"] = True
    ctx.notes["t_replay_s"] = round(__import__("time").time() - ctx.t0, 1)
    # 3. code -> spec
    producers_phase(ctx, 12000 if big else 2000)


def replay(ctx, payload):
    p = payload["payload"]
    if p["kind"] == "history":
        init_cls, init_val = POPS[p["pop"]]
        r = Replay(init_cls, init_val, p["pop"] in EMPTY_LIST_POPS)
        for a in p["history"]:
            r.apply(a)
        n = max(r.objs)
        got = r.project(n)
        v = evaluate_real_states(ctx, [_state_to_case(1, got)], n)[1]
        bad = [c for c, ok in zip(CLAUSES, v[:3]) if not ok]
        if bad:
            return f"{bad} false after history {[a['op'] for a in p['history']]}"
        if "structural_eq_pairs" in p and sorted(map(tuple, r.eq_pairs())) != sorted(map(tuple, p["structural_eq_pairs"])):
            return f"== disagrees with structural equality: {r.eq_pairs()} vs {p['structural_eq_pairs']}"
        return None
    if p["kind"] == "producer":
        from lib import producers

        raw = producers.run_chunk([p["work"]], ctx.seed)
        before = len(ctx.violations)
        judge_trees(ctx, raw)
        new_v = [v for v in ctx.violations[before:]]
        for v in new_v:
            if v["key"] == payload["key"]:
                return v["what"]
        return None
    raise MachineryError("unknown replay payload")
