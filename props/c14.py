"""C14 — error levels change how problems are reported, never what is produced
(spec/ErrLevel.tla model, spec/Mutate.tla inputs, spec/ErrTrace.tla acceptor)."""
from __future__ import annotations

import hashlib
import json
import os
import re
from concurrent.futures import ProcessPoolExecutor

from lib import mutate, tlc
from lib.tlc import MachineryError
from lib.tracejudge import judge

LEVELS = ["IGNORE", "WARN", "RAISE", "IMMEDIATE"]
DIALECTS = ["", "mysql", "postgres", "snowflake", "bigquery", "tsql", "duckdb", "hive", "oracle", "clickhouse"]


def write_cfg(path, *, maxlen, variant="code"):
    with open(path, "w") as f:
        f.write(f'CONSTANTS\n  MaxLen = {maxlen}\n  MaxDepth = 2\n  Variant = "{variant}"\nINIT Init\nNEXT Next\n'
                "INVARIANT NoRaise\nINVARIANT RaiseIffLogged\nINVARIANT ImmediateFirst\nINVARIANT ImmediateIff\nINVARIANT Restored\n")


def _h(x):
    return hashlib.sha1(x.encode("utf-8", "replace")).hexdigest()[:16]


class _Capture:
    def __init__(self, level):
        import logging

        self.records = []
        self.h = logging.Handler(level=level)
        self.h.emit = lambda rec: self.records.append((rec.levelname, rec.getMessage()))
        self.logger = logging.getLogger("sqlglot")

    def __enter__(self):
        self.old_level = self.logger.level
        self.old_prop = self.logger.propagate
        self.logger.setLevel(10)
        self.logger.propagate = False
        self.logger.addHandler(self.h)
        return self

    def __exit__(self, *a):
        self.logger.removeHandler(self.h)
        self.logger.setLevel(self.old_level)
        self.logger.propagate = self.old_prop


def _err_id(d):
    return ascii(f"{d.get('description')}@{d.get('line')}:{d.get('col')}")[:120]


def parse_quad(sql, dialect, max_errors):
    import sqlglot
    from sqlglot import _verif, serde
    from sqlglot.errors import ErrorLevel, ParseError, TokenError

    runs = []
    for lname in LEVELS:
        events = []
        main = []

        def sink(ev, f):
            # parsers created while the outer parse runs (DataType.build, maybe_parse, dialect modules being imported) emit too:
            # the outer Parser is the one that emits the very first event of the run
            if "pid" not in f:
                return
            if not main:
                main.append(f["pid"])
            if f["pid"] != main[0]:
                return
            if ev == "raise_error":
                events.append({"e": ev, "lvl": f["level"], "n": 0})
            elif ev == "try_enter":
                events.append({"e": ev, "lvl": f["level"], "n": 0})
            elif ev == "try_exit":
                events.append({"e": ev, "lvl": f["level"], "n": 0})
            elif ev == "check_errors":
                events.append({"e": ev, "lvl": f["level"], "n": f["errors"]})

        r = {"events": events, "out": "", "exc": "", "excmsg": "", "tokerr": False, "crash": "", "errs": [], "logged": [], "batches": [], "collected": [], "rendered": 0}
        with _Capture(10) as cap:
            _verif.sink = sink
            try:
                trees = sqlglot.parse(sql, read=dialect or None, error_level=getattr(ErrorLevel, lname), max_errors=max_errors)
                r["out"] = _h(json.dumps([serde.dump(t) if t is not None else None for t in trees], default=lambda o: type(o).__name__, sort_keys=True))
            except TokenError as e:
                r["tokerr"] = True
                r["exc"] = "TokenError"
                r["excmsg"] = _h(str(e))
            except ParseError as e:
                r["exc"] = "ParseError"
                r["errs"] = [_err_id(d) for d in e.errors]
                r["rendered"] = len(re.findall(r"\. Line \d+, Col: \d+\.", str(e)))
            except RecursionError:
                r["crash"] = "RecursionError"
            except Exception as e:
                r["crash"] = type(e).__name__
            finally:
                _verif.sink = None
        # what the WARN level logged: logger.error(str(error)) per collected error, at every statement end
        logged = [m for lv, m in cap.records if lv == "ERROR"]
        ids = []
        for msg in logged:
            mm = re.match(r"(.*)\. Line (\d+|None), Col: (\d+|None)\.", msg, re.S)
            ids.append(ascii(f"{mm.group(1)}@{mm.group(2)}:{mm.group(3)}")[:120] if mm else ascii(msg)[:120])
        r["logged"] = ids
        # batches: one per check_errors event that had errors
        k = 0
        for ev in events:
            if ev["e"] == "check_errors" and ev["n"] and lname == "WARN":
                r["batches"].append(ids[k : k + ev["n"]])
                k += ev["n"]
        # all distinct errors collected, in order (the last batch is the complete list)
        r["collected"] = r["batches"][-1] if r["batches"] else []
        runs.append(r)
    return runs


_GENS = {}


def gen_quad(sql, read, write, max_unsupported, reuse=False):
    import sqlglot
    from sqlglot.dialects.dialect import Dialect
    from sqlglot.errors import ErrorLevel, UnsupportedError

    try:
        tree = sqlglot.parse_one(sql, dialect=read or None)
    except Exception:
        return None
    runs = []
    for lname in LEVELS:
        r = {"out": "", "exc": "", "errs": [], "logged": [], "rendered": 0, "crash": ""}
        with _Capture(10) as cap:
            try:
                if reuse:
                    # one long-lived Generator per (dialect, level): generate() must start every call from a clean slate
                    key = (write, lname, max_unsupported)
                    if key not in _GENS:
                        _GENS[key] = Dialect.get_or_raise(write or None).generator(unsupported_level=getattr(ErrorLevel, lname), max_unsupported=max_unsupported)
                    r["out"] = _h(_GENS[key].generate(tree))
                else:
                    r["out"] = _h(tree.sql(dialect=write or None, unsupported_level=getattr(ErrorLevel, lname), max_unsupported=max_unsupported))
            except UnsupportedError as e:
                r["exc"] = "UnsupportedError"
                msg = str(e)
                parts = [p for p in msg.split("\n\n") if not p.startswith("... and ")]
                r["rendered"] = len(parts)
                r["errs"] = [ascii(p)[:120] for p in parts][:1]
            except RecursionError:
                r["crash"] = "RecursionError"
            except Exception as e:
                r["crash"] = type(e).__name__
        r["logged"] = [ascii(m)[:120] for lv, m in cap.records if lv == "WARNING"]
        runs.append(r)
    return runs


def _chunk(arg):
    import sys

    sys.path.insert(0, os.environ.get("VERIF_REPO", "/repo"))
    from lib.guard import HardTimeout, limits, time_limit

    limits()
    from sqlglot.dialects.dialect import Dialect

    _ = Dialect.classes  # load every dialect module now: their class bodies parse SQL at import time and would emit hook events mid-run
    out = []
    for w in arg:
        try:
            with time_limit(60):
                if w["kind"] == "parse":
                    runs = parse_quad(w["sql"], w["dialect"], w["max_errors"])
                    out.append({"kind": "parse", "runs": runs, "gruns": [], "max_errors": w["max_errors"], "max_unsupported": 3, "meta": w})
                else:
                    runs = gen_quad(w["sql"], w["dialect"], w["write"], w["max_unsupported"], reuse=w.get("reuse", False))
                    if runs is None:
                        continue
                    out.append({"kind": "gen", "runs": [], "gruns": runs, "max_errors": 3, "max_unsupported": w["max_unsupported"], "meta": w})
        except HardTimeout:
            out.append({"skip": "timeout", "meta": w, "sql": w.get("sql")})
        except Exception as e:
            out.append({"skip": f"{type(e).__name__}: {e}", "meta": w})
    return out


def run(ctx):
    ctx.assumptions += [
        "inputs that do not tokenize must raise the same TokenError at all four levels",
        "an internal (non-sqlglot) exception in any of the four runs is C05's subject: such cases are skipped here",
        "error identity = (description, line, col); WARN's log records are read from the 'sqlglot' logger",
    ]
    ctx.cov["rule"] = (
        "parse: valid statements, TLC-generated single/double token mutations and 3-statement scripts with one mutated statement x dialects x max_errors in 1..3, four runs each (one "
        "per ErrorLevel) with hook events; generate: corpus/probe statements x (read, write) dialect pairs x max_unsupported, four runs each; the TLA+ acceptor ErrTrace relates the "
        "four outcomes and checks the level discipline of the event logs; distinct by (sql, dialect[, write], max); non-trivial = at least one error/unsupported message was collected"
    )
    # the model and its negative controls
    cfg = os.path.join(ctx.work, "errlevel.cfg")
    write_cfg(cfg, maxlen=8 if ctx.thorough else 7)
    res = tlc.run("ErrLevel", cfg, ctx.work, workers=16, timeout_s=1200, allow_violation=False)
    ctx.model(res, "ErrLevel", cfg, "four lock-step copies over all event streams within the bound")
    for v in ("no_restore_on_ok", "warn_raises"):
        cfg = os.path.join(ctx.work, f"neg_{v}.cfg")
        write_cfg(cfg, maxlen=6, variant=v)
        r = tlc.run("ErrLevel", cfg, ctx.work, workers=8, timeout_s=300)
        if not r.violated:
            raise MachineryError(f"negative control {v} not detected")
        ctx.notes.setdefault("negative_controls", {})[v] = r.violated
    base = mutate.bases()
    big = ctx.thorough
    muts = mutate.generate(ctx, "single", 2500 if big else 500, seed=ctx.seed + 1)
    muts += mutate.generate(ctx, "double", 300 if big else 70, seed=ctx.seed + 1)
    muts += mutate.generate(ctx, "script", 1500 if big else 300, seed=ctx.seed + 1)
    muts += mutate.generate(ctx, "sweep", 60 if big else 25)
    work = []
    for i, sql in enumerate(base):
        work.append({"kind": "parse", "sql": sql, "dialect": DIALECTS[i % len(DIALECTS)], "max_errors": 1 + i % 3})
    for i, m in enumerate(muts):
        sql = mutate.render(m, base)
        work.append({"kind": "parse", "sql": sql, "dialect": DIALECTS[i % len(DIALECTS)] if i % 2 else "", "max_errors": 1 + i % 3, "mutation": m})
    for i, (sql, d) in enumerate(mutate.dialect_sweep(stride=1 if big else 4, offset=ctx.seed)):
        work.append({"kind": "parse", "sql": sql, "dialect": d, "max_errors": 1 + i % 3})
    from lib import producers

    dialects = producers.all_dialects()
    probes = producers.corpus_probes()
    ident = producers.corpus_identity()
    rng = ctx.rng
    for i, pr in enumerate(probes):
        for j in range(6 if big else 2):
            work.append({"kind": "gen", "sql": pr["sql"], "dialect": pr["dialect"], "write": dialects[(i * 5 + j * 7 + ctx.seed) % len(dialects)], "max_unsupported": 1 + (i + j) % 3})
    for i in range(3000 if big else 500):
        work.append({"kind": "gen", "sql": ident[(i * 13 + ctx.seed) % len(ident)], "dialect": "", "write": dialects[(i * 3 + ctx.seed) % len(dialects)], "max_unsupported": 1 + i % 3})
    # sequences on reused generators: few target dialects so that every worker's generators see many trees, unsupported and supported ones interleaved
    for i in range(4000 if big else 900):
        src = probes[i % len(probes)] if i % 2 else {"sql": ident[(i * 7 + ctx.seed) % len(ident)], "dialect": ""}
        work.append({"kind": "gen", "sql": src["sql"], "dialect": src["dialect"], "write": ("hive", "duckdb", "sqlite", "tsql")[i % 4], "max_unsupported": 2, "reuse": True})
    chunks = [work[i::64] for i in range(64)]
    cases, skips = [], []
    with ProcessPoolExecutor(max_workers=16) as ex:
        for o in ex.map(_chunk, [c for c in chunks if c]):
            for c in o:
                (skips if "skip" in c else cases).append(c)
    # internal exceptions are C05's subject
    crashed = [c for c in cases if any(r["crash"] for r in c["runs"] + c["gruns"])]
    cases = [c for c in cases if not any(r["crash"] for r in c["runs"] + c["gruns"])]
    verdicts = judge(ctx, "ErrTrace", cases, "levels", per_shard=1500)
    ctx.count(len(cases), traces=len(cases))
    stats = {}
    for c in cases:
        clause = verdicts[c["id"]][0]
        m = c["meta"]
        stats[f"{c['kind']}:{clause}"] = stats.get(f"{c['kind']}:{clause}", 0) + 1
        if c["kind"] == "parse":
            if any(r["errs"] or r["logged"] for r in c["runs"]):
                ctx.nontrivial((m["sql"], m["dialect"], m["max_errors"]))
        elif any(r["logged"] or r["exc"] for r in c["gruns"]):
            ctx.nontrivial((m["sql"], m["dialect"], m["write"], m["max_unsupported"]))
        if clause != "OK":
            if c["kind"] == "parse":
                summ = {l: (r["exc"] or "ok", len(r["errs"]), len(r["logged"]), r["out"][:6]) for l, r in zip(LEVELS, c["runs"])}
                ctx.violation(f"parse:{clause}", f"{clause} fails for {m['sql'][:160]!r} (dialect {m['dialect'] or 'base'}, max_errors={m['max_errors']}): {summ}", {k: m[k] for k in m})
            else:
                summ = {l: (r["exc"] or "ok", len(r["logged"]), r["out"][:6]) for l, r in zip(LEVELS, c["gruns"])}
                ctx.violation(f"generate:{clause}:{m['write'] or 'base'}", f"{clause} fails generating {m['sql'][:140]!r} ({m['dialect'] or 'base'} -> {m['write'] or 'base'}, max_unsupported={m['max_unsupported']}): {summ}", {k: m[k] for k in m})
    ctx.notes.update({"work": len(work), "cases": len(cases), "verdicts": stats, "internal_exceptions_skipped": len(crashed), "skipped": len(skips)})
    if len(cases) < len(work) // 2:
        raise MachineryError(f"too few cases: {len(cases)} of {len(work)}; {skips[:2]}")
    for c in [c for c in cases if c["kind"] == "parse" and c["runs"][2]["exc"]][:2]:
        ctx.sample({"sql": c["meta"]["sql"][:200], "dialect": c["meta"]["dialect"], "events_WARN": c["runs"][1]["events"][:8], "RAISE_errors": c["runs"][2]["errs"][:3]})
    ctx.cov["exhaustive"] = False


def replay(ctx, payload):
    p = payload["payload"]
    cases = [c for c in _chunk([p]) if "skip" not in c]
    verdicts = judge(ctx, "ErrTrace", cases, "replay")
    for c in cases:
        if verdicts[c["id"]][0] != "OK":
            return f"{verdicts[c['id']][0]} fails for {p['sql'][:120]!r}"
    return None
