"""C01 - same-dialect round trip is a fixpoint in every dialect.

  * Grammar.tla: the round-trip pipeline and its clauses (Reparses, Fixpoint, SameTree, FormatKept) and the core grammar as
    a term algebra; TLC enumerates depth-1 expression terms, the precedence ladder (every binary/unary form under every
    binary form, bare and parenthesised) and statement forms, and draws deeper terms.
  * the driver renders the terms as SQL text, adds the corpora (identity.sql, optimizer fixtures, dialect probes) and
    per-dialect time-format texts, runs parse -> generate -> parse -> generate in every dialect in which the text parses,
    and RoundTrip.tla judges the recorded stages.
"""
from __future__ import annotations

import json
import os
import zlib
from concurrent.futures import ProcessPoolExecutor

from lib import gram, producers, tlc
from lib.tlc import MachineryError
from lib.tracejudge import judge

CFG = 'CONSTANTS\n  Focus = "unary"\n  K = 1\nINIT RInit\nNEXT RNext\nINVARIANT Verdict\n'


def dg(s):
    return zlib.crc32(s.encode("utf-8", "replace")) % 1000000007


def pipeline(sql, dialect, fmt=None):
    import sqlglot
    from sqlglot import exp
    from sqlglot.errors import ParseError, TokenError, UnsupportedError

    c = {"kind": "rt", "base": not dialect, "parsed0": False, "generated": False, "parsed1": False, "s1": 0, "s2": 0, "tree_eq": True, "fmt_kept": True}
    m = {"sql": sql, "dialect": dialect}
    try:
        t0 = sqlglot.parse_one(sql, read=dialect or None)
    except (ParseError, TokenError, ValueError, IndexError, AssertionError, KeyError, TypeError, AttributeError, RecursionError):
        return None  # not in the domain of the property (robustness of parsing is C05)
    if t0 is None:
        return None
    c["parsed0"] = True
    try:
        s1 = t0.sql(dialect=dialect or None)
        c["generated"] = True
    except UnsupportedError:
        return None
    except Exception as e:  # noqa: BLE001
        m["error"] = f"{type(e).__name__}: {str(e)[:160]}"
        return {**c, "meta": m}
    m["s1"] = s1
    try:
        t1 = sqlglot.parse_one(s1, read=dialect or None)
        c["parsed1"] = t1 is not None
    except Exception as e:  # noqa: BLE001
        m["error"] = f"{type(e).__name__}: {str(e)[:160]}"
        return {**c, "meta": m}
    if not c["parsed1"]:
        return {**c, "meta": m}
    try:
        s2 = t1.sql(dialect=dialect or None)
    except Exception as e:  # noqa: BLE001
        m["error"] = f"second generation: {type(e).__name__}: {str(e)[:160]}"
        c["parsed1"] = False
        return {**c, "meta": m}
    m["s2"] = s2
    c["s1"], c["s2"] = dg(s1), dg(s2)
    if not dialect:
        c["tree_eq"] = t0 == t1
        if fmt is not None:
            lits = [x.name for x in t1.find_all(exp.Literal) if x.is_string]
            c["fmt_kept"] = fmt in lits and f"'{fmt}'" in s1
    return {**c, "meta": m}


def _chunk(work):
    import logging
    import sys

    sys.path.insert(0, os.environ.get("VERIF_REPO", "/repo"))
    logging.disable(logging.CRITICAL)
    from lib.guard import HardTimeout, time_limit

    out = []
    for w in work:
        try:
            with time_limit(20):
                c = pipeline(w["sql"], w["dialect"], w.get("fmt"))
        except HardTimeout:
            c = None
        if c is None:
            out.append(None)
            continue
        c["meta"].update({k: w[k] for k in w if k not in ("sql", "dialect")})
        out.append(c)
    return out


def _time_inputs(arg):
    import logging
    import sys

    d, extra = arg
    sys.path.insert(0, os.environ.get("VERIF_REPO", "/repo"))
    logging.disable(logging.CRITICAL)
    return gram.time_inputs(d, 6, 0, extra)


def native_tokens(sql):
    """Format tokens of the last string literal of a time-format text, as the dialect writes them."""
    import re

    lits = re.findall(r"'([^']*)'", sql)
    return re.findall(r"%-?[A-Za-z]|[A-Za-z]+", lits[-1]) if lits else []


def subterms(t):
    if t["k"] == "stmt":
        return [t["e1"], t["e2"]]
    if t["k"] == "app":
        return list(t["args"])
    return []


def generate(ctx, foci, k):
    """One TLC run per focus, in parallel (TLC precomputes every constant definition of Grammar.tla at start-up, ~30 s each)."""
    from concurrent.futures import ThreadPoolExecutor

    def one(focus):
        cfg = os.path.join(ctx.work, f"grammar_{focus}.cfg")
        with open(cfg, "w") as f:
            f.write(f'CONSTANTS\n  Focus = "{focus}"\n  K = {k}\nINIT Init\nNEXT Next\nINVARIANT Emit\n')
        # fixed seed: the explored space does not depend on the run seed
        return focus, cfg, tlc.run("Grammar", cfg, ctx.work, workers=2, timeout_s=1500, seed=7, allow_violation=False)

    terms = {}
    with ThreadPoolExecutor(max_workers=8) as ex:
        results = list(ex.map(one, foci))
    for focus, cfg, res in results:
        ctx.model(res, "Grammar", cfg, f"terms of focus {focus}")
        for p in res.printed:
            terms.setdefault(gram.render(p["t"]), p["t"])
    return terms


def run(ctx):
    ctx.assumptions += [
        "a text is in the domain for dialect d iff parse_one(text, read=d) returns a tree (texts d rejects are skipped; robustness is C05)",
        "trees are compared with Expression.__eq__; SQL texts byte for byte",
    ]
    ctx.cov["rule"] = (
        "texts: Grammar.tla terms (30 unary x 18 atoms, 37 binary x 18 x 18, ternary, the precedence ladder, drawn depth-2/3 terms, 70 statement forms with drawn expression slots) rendered as SQL, "
        "the identity / optimizer-fixture / dialect-probe corpora, and native time-format texts of every dialect (each TIME_MAPPING key alone and in drawn pairs x 6 format functions); "
        "x all registered dialects + base; a 1/16 hash slice per quick run; distinct by (text, dialect); non-trivial = the text parses in that dialect"
    )
    terms = generate(ctx, ["atoms", "unary", "binary", "ternary", "ladder", "deep", "stmt_plain", "stmt"], 12)
    dialects = producers.all_dialects()
    frac = 1 if ctx.thorough else 16
    work = []
    texts = [(s, {"src": "grammar", "t": t}) for s, t in terms.items()]
    texts += [(s, {"src": "identity"}) for s in producers.corpus_identity()]
    texts += [(r["sql"], {"src": "optimizer"}) for r in producers.corpus_optimizer() if r["file"] not in ("annotate_functions", "simplify") and not r["dialect"]]
    for s, meta in texts:
        for d in dialects:
            # the base dialect carries two more clauses (SameTree, FormatKept): every statement form and a quarter of the rest, always
            stmt = meta.get("t", {}).get("k") == "stmt"
            if gram.h(s, d) % frac == ctx.seed % frac or (not d and (stmt or gram.h(s, "b") % 4 == ctx.seed % 4)):
                work.append({"sql": s, "dialect": d, **meta})
    for r in producers.corpus_probes():
        work.append({"sql": r["sql"], "dialect": r["dialect"], "src": "probe"})
    import logging
    import sys

    sys.path.insert(0, os.environ.get("VERIF_REPO", "/repo"))
    logging.disable(logging.CRITICAL)
    # the model of format_time on the exported dialect tables: its forward images are replayed through the real function,
    # and every string it flags (not longest-match / not idempotent) is fed to the real pipeline
    tables = gram.time_tables()
    tpath = os.path.join(ctx.work, "time_tables.json")
    with open(tpath, "w") as f:
        json.dump(tables, f)
    tcfg = os.path.join(ctx.work, "timefmt.cfg")
    with open(tcfg, "w") as f:
        f.write("INIT Init\nNEXT Next\nINVARIANT Report\n")
    tres = tlc.run("TimeFmt", tcfg, ctx.work, workers=1, timeout_s=1800, env={"TABLES": tpath}, allow_violation=False)
    ctx.model(tres, "TimeFmt", tcfg, "format_time transcribed (Loop) vs longest match (LM) and idempotence of inverse o forward, on every key / adjacent pair / separated pair of every dialect's TIME_MAPPING")
    rows, unparsed = gram.parse_timefmt(tres.stdout)
    if len(rows) < 0.9 * tres.distinct:
        raise MachineryError(f"TimeFmt printed {len(rows)} parsable tuples for {tres.distinct} states")
    from sqlglot.dialects.dialect import Dialect
    from sqlglot.time import format_time

    flagged, mism = {}, 0
    for (dn, s_), (f_, dev, non) in rows.items():
        dd = Dialect.get_or_raise(None if dn == "base" else dn)
        real = format_time(s_, dd.TIME_MAPPING, dd.TIME_TRIE)
        if real != f_:
            mism += 1
            if mism <= 5:
                ctx.drift(f"TimeFmt.Loop and sqlglot.time.format_time disagree for {dn} {s_!r}: model {f_!r}, code {real!r}")
        if dev or non:
            flagged.setdefault("" if dn == "base" else dn, []).append(f_)
    ctx.notes["timefmt"] = {"strings": len(rows), "deviates_from_longest_match": sum(1 for v in rows.values() if v[1]), "model_non_idempotent": sum(1 for v in rows.values() if v[2]), "code_vs_model_mismatches": mism, "unparsed": unparsed}
    with ProcessPoolExecutor(max_workers=16) as ex:
        for d, tis in zip(dialects, ex.map(_time_inputs, [(d, tuple(sorted(set(flagged.get(d, []))))) for d in dialects])):
            for ti in tis:
                single = len(native_tokens(ti["sql"])) <= 1 or ti["fmt"] in flagged.get(d, ())
                if ctx.thorough or single or gram.h(ti["sql"], d, "t") % 4 == ctx.seed % 4:
                    work.append({"sql": ti["sql"], "dialect": d, "src": "time", "fmt": ti["fmt"] if not d else None, "fn": ti["fn"], "tfmt": ti["fmt"]})
    chunks = [work[i::128] for i in range(128)]
    cases, skipped = [], 0
    with ProcessPoolExecutor(max_workers=16) as ex:
        for o in ex.map(_chunk, [c for c in chunks if c]):
            for c in o:
                if c is None:
                    skipped += 1
                else:
                    cases.append(c)
    if len(cases) < 2000:
        raise MachineryError(f"only {len(cases)} texts were in the domain")
    verdicts = judge(ctx, "RoundTrip", cases, "rt", per_shard=8000, cfg_text=CFG)
    ctx.count(len(cases), traces=len(cases))
    bad = {}
    stats = {}
    for c in cases:
        v = verdicts[c["id"]][0]
        stats[v] = stats.get(v, 0) + 1
        ctx.nontrivial((c["meta"]["sql"], c["meta"]["dialect"]))
        if v != "OK":
            bad[(c["meta"]["sql"], c["meta"]["dialect"])] = (c, v)
    # root cause of a failing grammar term: its smallest failing subterm (judged again by the acceptor)
    extra, owner = [], []
    for (sql, d), (c, v) in bad.items():
        t = c["meta"].get("t")
        if not t:
            continue
        stack = subterms(t)
        while stack:
            s = stack.pop()
            extra.append({"sql": gram.render(s), "dialect": d, "src": "sub", "t": s})
            owner.append((sql, d))
            stack += subterms(s)
    sub_bad = {}
    if extra:
        subcases = [c for c in _chunk_all(extra)]
        live = [(c, o) for c, o in zip(subcases, owner) if c is not None]
        if live:
            sv = judge(ctx, "RoundTrip", [c for c, _ in live], "rtsub", per_shard=8000, cfg_text=CFG)
            for c, o in live:
                if sv[c["id"]][0] != "OK":
                    prev = sub_bad.get(o)
                    if prev is None or len(c["meta"]["sql"]) < len(prev["meta"]["sql"]):
                        sub_bad[o] = c
    import re as _re

    examples = {}

    time_single_bad = set()
    for (sql, d), (c, v) in bad.items():
        m = c["meta"]
        if m["src"] == "time":
            toks = set(native_tokens(sql))
            if len(toks) == 1:
                time_single_bad.add((d, m["fn"], next(iter(toks))))
    for (sql, d), (c, v) in bad.items():
        m = c["meta"]
        root = sub_bad.get((sql, d))
        t = (root or c)["meta"].get("t")
        if m["src"] == "time":
            import re

            toks = sorted(set(native_tokens(sql)))
            single = [tk for tk in toks if (d, m["fn"], tk) in time_single_bad]
            if len(toks) > 1 and single:
                continue  # explained by a token that already fails alone (reported there)
            key = f"{v}:{d or 'base'}:time:{m['fn']}:{'+'.join(toks)}"
        elif t:
            key = f"{v}:{d or 'base'}:" + (("atom:" + t["v"]) if t["k"] == "atom" else (("stmt:" if t["k"] == "stmt" else "") + t["f"]))
        else:
            key = f"{v}:{d or 'base'}:{m['src']}:{'%08x' % zlib.crc32(sql.encode())}"
        what = f"{v} in {d or 'base'} for {sql!r}: s1={m.get('s1')!r} s2={m.get('s2')!r} {m.get('error', '')}"
        examples.setdefault(key, what[:400])
        ctx.violation(key, what, {"sql": sql, "dialect": d, "fmt": m.get("fmt")})
    os.makedirs("/tmp/verif_keys", exist_ok=True)  # triage aid only; nothing registered reads it
    with open(f"/tmp/verif_keys/{ctx.pid}_{ctx.tier}.json", "w") as f:
        json.dump(examples, f, indent=0, sort_keys=True)
    ctx.notes.update({"verdicts": stats, "texts": len(texts), "pipelines": len(cases), "outside_domain": skipped})
    for c in cases[:: max(1, len(cases) // 3)][:3]:
        ctx.sample({"sql": c["meta"]["sql"], "dialect": c["meta"]["dialect"], "s1": c["meta"].get("s1")})
    ctx.cov["exhaustive"] = False


def _chunk_all(work):
    chunks = [work[i::64] for i in range(64)]
    idx = [list(range(len(work)))[i::64] for i in range(64)]
    out = [None] * len(work)
    with ProcessPoolExecutor(max_workers=16) as ex:
        for ids, o in zip([i for i, c in zip(idx, chunks) if c], ex.map(_chunk, [c for c in chunks if c])):
            for k, c in zip(ids, o):
                out[k] = c
    return out


def replay(ctx, payload):
    p = payload["payload"]
    cs = [c for c in _chunk([{"sql": p["sql"], "dialect": p["dialect"], "fmt": p.get("fmt"), "src": "replay"}]) if c]
    if not cs:
        return None
    v = judge(ctx, "RoundTrip", cs, "replay", cfg_text=CFG)[cs[0]["id"]][0]
    return None if v == "OK" else f"{v} in {p['dialect'] or 'base'} for {p['sql']!r}"
