"""C03 — the optimizer never changes what a query returns (rows before/after every prefix of the rule pipeline and after
each rule applied on its own after qualify, executed on DuckDB; RelSem calibrates the generator; RelTrace is the acceptor)."""
from __future__ import annotations

import inspect
import json
import os
from concurrent.futures import ProcessPoolExecutor

from lib import relgen, relq
from lib.tlc import MachineryError
from lib.tracejudge import judge


def rule_texts(sql):
    """[(label, sql text)] for the original, every prefix of RULES, and qualify followed by each single rule."""
    import sqlglot
    from sqlglot.optimizer.optimizer import RULES
    from sqlglot.schema import ensure_schema

    schema = ensure_schema(relq.TYPED_SCHEMA, dialect="duckdb")
    possible = {"db": None, "catalog": None, "schema": schema, "dialect": "duckdb", "sql": None, "isolate_tables": True, "quote_identifiers": False}

    def apply(tree, rule):
        params = inspect.getfullargspec(rule).args
        return rule(tree, **{p: possible[p] for p in params if p in possible})

    out = [("original", sql)]
    tree = sqlglot.parse_one(sql, dialect="duckdb")
    cur = tree.copy()
    qualified = None
    for i, rule in enumerate(RULES):
        try:
            cur = apply(cur, rule)
            text = cur.sql(dialect="duckdb")
        except Exception as e:
            out.append((f"prefix:{rule.__name__}", None, f"{type(e).__name__}: {str(e)[:100]}"))
            break
        out.append((f"prefix:{rule.__name__}", text))
        if i == 0:
            qualified = cur.copy()
    if qualified is not None:
        for rule in RULES[1:]:
            try:
                text = apply(qualified.copy(), rule).sql(dialect="duckdb")
            except Exception as e:
                out.append((f"single:{rule.__name__}", None, f"{type(e).__name__}: {str(e)[:100]}"))
                continue
            out.append((f"single:{rule.__name__}", text))
    return out


def _chunk(arg):
    import sys

    sys.path.insert(0, os.environ.get("VERIF_REPO", "/repo"))
    import logging

    logging.getLogger("sqlglot").setLevel(logging.CRITICAL)
    from lib.guard import HardTimeout, time_limit

    items, dbs = arg
    ducks = [relq.Duck(db) for db in dbs]
    out = []
    for it in items:
        sql = it["sql"]
        try:
            with time_limit(60):
                texts = rule_texts(sql)
        except (Exception, HardTimeout) as e:
            out.append({"skip": f"rule_texts: {type(e).__name__}: {e}", "sql": sql})
            continue
        errors = [t for t in texts if t[1] is None]
        texts = [t for t in texts if t[1] is not None]
        # distinct texts, remembering the first label that produced each
        uniq, labels = [], {}
        for lab, text in [(t[0], t[1]) for t in texts]:
            if text not in labels:
                labels[text] = []
                uniq.append(text)
            labels[text].append(lab)
        ordered = it["q"]["kind"] == "select" and bool(it["q"]["order"])
        for di, db in enumerate(dbs):
            runs = []
            bad_engine = None
            for text in uniq:
                try:
                    n, r = ducks[di].run(text)
                    runs.append({"ok": True, "names": n, "rows": relq.enc_rows(r)})
                except Exception as e:
                    if text == sql:
                        bad_engine = f"{type(e).__name__}: {str(e)[:100]}"
                        break
                    runs.append({"ok": True, "names": ["!error"], "rows": [[["S", f"engine rejects the optimized text: {type(e).__name__}"]]]})
            if bad_engine:
                out.append({"skip": f"duckdb rejects the original: {bad_engine}", "sql": sql})
                break
            out.append({"runs": runs, "ordered": ordered, "checknames": True, "calibrate": relq.in_sem_fragment(it["q"]) and di < 2,
                        "q": relq.sem_term(it["q"]), "db": relq.tla_db(db),
                        "meta": {"sql": sql, "db": di, "dbrows": db, "feats": it["feats"], "sk": it["sk"], "texts": uniq,
                                 "labels": [labels[t] for t in uniq], "rule_errors": [(e[0], e[2]) for e in errors]}})
    return out


def _differs_factory(label):
    kind, _, rule = label.partition(":")

    def differs(sk, db):
        b = relq.build(sk)
        if not b:
            return False
        sql = relq.query_sql(b[0])
        try:
            texts = dict((t[0], t[1]) for t in rule_texts(sql) if t[1] is not None)
            if label not in texts:
                return False
            d = relq.Duck(db)
            _, r0 = d.run(sql)
            try:
                _, r1 = d.run(texts[label])
            except Exception:
                return True
        except Exception:
            return False
        norm = lambda rows: sorted(map(repr, relq.enc_rows(rows)))
        return norm(r0) != norm(r1)

    return differs


def run(ctx):
    ctx.assumptions += [
        "engine oracle: DuckDB executes the original and every optimized text over integer tables t(a,b), u(a,c), e(a,d)",
        "the SQL after a step is generated in the duckdb dialect; a text DuckDB rejects counts as a changed result",
        "RelSem.Sem is calibrated against DuckDB on the original text (statistic + SPEC-DRIFT)",
    ]
    ctx.cov["rule"] = (
        "queries: skeleton spaces of QueryGen.tla (joins/subq/elim/sets complete, TLC-sampled across all factors); per query the original text, the text after each "
        "prefix of RULES and after qualify+each single rule are executed on DuckDB over fixed + TLC-sampled databases; TLC compares every result with the original's "
        "(bag, or sequence under a total ORDER BY) and the column names; distinct by (sql, db); non-trivial = at least one rule changed the text and the original returns rows"
    )
    pools = []
    core_sql = set()
    for focus in ("joins", "subq", "elim", "sets", "joins3", "arith"):
        got = relgen.skeletons(ctx, focus)
        if focus in ("joins3", "arith"):
            core_sql |= {it["sql"] for it in got}   # small sub-spaces that the quick tier always visits completely
        pools += got
    pools += relgen.skeletons(ctx, "sample", k=3000 if ctx.thorough else 800, seed=1)
    seen, items = set(), []
    for it in pools:
        if it["sql"] not in seen:
            seen.add(it["sql"])
            items.append(it)
    items.sort(key=lambda it: it["sql"])
    if not ctx.thorough:
        # the unchanged tree has listed findings for this property: the space is fixed and triaged, the seed selects a slice
        import zlib

        items = [it for it in items if it["sql"] in core_sql or zlib.crc32(it["sql"].encode()) % 8 == ctx.seed % 8]
    dbs = relgen.databases(ctx, 3 if ctx.thorough else 0)
    chunks = [items[i::48] for i in range(48)]
    cases, skips = [], []
    with ProcessPoolExecutor(max_workers=16) as ex:
        for o in ex.map(_chunk, [(c, dbs) for c in chunks if c]):
            for c in o:
                (skips if "skip" in c else cases).append(c)
    if len(skips) > len(items) // 5:
        raise MachineryError(f"{len(skips)} queries skipped, e.g. {skips[0]}")
    verdicts = judge(ctx, "RelTrace", cases, "opt", per_shard=1200)
    ctx.count(len(cases), traces=len(cases))
    stats = {"ok": 0, "calibrated_yes": 0, "calibrated_no": 0, "rule_errors": 0}
    minimised = {}
    for c in cases:
        clause, rowmask, namemask, calib = verdicts[c["id"]]
        m = c["meta"]
        if len(m["texts"]) > 1 and c["runs"][0]["rows"]:
            ctx.nontrivial((m["sql"], m["db"]))
        if calib == "yes":
            stats["calibrated_yes"] += 1
        elif calib == "no":
            stats["calibrated_no"] += 1
            ctx.drift(f"RelSem.Sem disagrees with DuckDB on {m['sql']!r} over db {m['db']}", {"sql": m["sql"], "db": m["dbrows"]})
        stats["rule_errors"] += len(m["rule_errors"])
        if clause == "OK":
            stats["ok"] += 1
            continue
        mask = rowmask if clause == "SameRows" else namemask
        k = next(i for i in range(2, len(c["runs"]) + 1) if (mask >> i) & 1)
        label = m["labels"][k - 1][0]
        rule = label.split(":")[1]
        # key: the rule whose step first changes the result + the minimal query shape
        if clause == "SameRows":
            ky = minimised.setdefault(label, relq.Keyer(relq.NEUTRAL, lambda s: relq.shape_key(s, {}), relq.minimize))
            shape, minimal = ky.key(m["sk"], {t: [tuple(r) for r in rows] for t, rows in m["dbrows"].items()}, _differs_factory(label), tuple(m["feats"]))
            if minimal:
                minimal = {**minimal, "sql": relq.query_sql(relq.build(minimal["sk"])[0])}
        else:
            shape, minimal = "+".join(f for f in m["feats"] if f not in ("src:table", "proj:cols")) or "plain", None
        ctx.violation(
            f"{rule}:{clause}:{shape}",
            f"{label} changes the {'rows' if clause == 'SameRows' else 'column names'} of {m['sql']!r} on db {m['db']} {m['dbrows']}: "
            f"{c['runs'][0]['rows'][:5] if clause == 'SameRows' else c['runs'][0]['names']} -> {c['runs'][k-1]['rows'][:5] if clause == 'SameRows' else c['runs'][k-1]['names']}; optimized text: {m['texts'][k-1]!r}",
            {"sql": m["sql"], "db": m["db"], "dbrows": m["dbrows"], "sk": m["sk"], "label": label, "minimal": minimal, "optimized": m["texts"][k - 1]},
        )
    ctx.notes.update({"queries": len(items), "databases": len(dbs), "cases": len(cases), **stats, "skipped": len(skips)})
    if stats["calibrated_no"] > max(3, stats["calibrated_yes"] // 50):
        raise MachineryError(f"RelSem disagrees with DuckDB on {stats['calibrated_no']} cases: the specification is wrong")
    for c in [c for c in cases if len(c["meta"]["texts"]) > 2][:: max(1, len(cases) // 3)][:2]:
        ctx.sample({"sql": c["meta"]["sql"], "db": c["meta"]["dbrows"], "texts": c["meta"]["texts"][:4], "rows": c["runs"][0]["rows"][:4]})
    ctx.cov["exhaustive"] = False


def replay(ctx, payload):
    p = payload["payload"]
    b = relq.build(p["sk"])
    if not b:
        return None
    q, feats = b
    cases = [c for c in _chunk(([{"sk": p["sk"], "q": q, "feats": sorted(feats), "sql": relq.query_sql(q)}], [p["dbrows"]])) if "skip" not in c]
    verdicts = judge(ctx, "RelTrace", cases, "replay")
    for c in cases:
        clause, rowmask, namemask, calib = verdicts[c["id"]]
        if clause != "OK":
            mask = rowmask if clause == "SameRows" else namemask
            k = next(i for i in range(2, len(c["runs"]) + 1) if (mask >> i) & 1)
            if c["meta"]["labels"][k - 1][0].split(":")[1] == p["label"].split(":")[1]:
                return f"{c['meta']['labels'][k-1][0]} changes the result of {p['sql']!r}"
    return None
