"""C18 — schema lookups always reflect the current registrations (spec/Schema.tla)."""
from __future__ import annotations

import json
import os
from concurrent.futures import ProcessPoolExecutor

from lib import tlc
from lib.tlc import MachineryError

STRATEGY_DIALECTS = {
    "LOWERCASE": ["", "postgres"],
    "UPPERCASE": ["snowflake", "oracle"],
    "CASE_SENSITIVE": ["mysql", "clickhouse"],
    "CASE_INSENSITIVE": ["duckdb", "sqlite", "presto"],
    "CASE_INSENSITIVE_UPPERCASE": ["snowflake, normalization_strategy=case_insensitive_uppercase"],
    "BQ": ["bigquery"],
}


def write_cfg(path, *, depth, strategy, normalize=True, maxops=3, variant="code", universe="small",
              styles=("s", "iq"), cols=("a", "A"), emit=False, check=True):
    lines = [
        "CONSTANTS",
        f"  Depth = {depth}",
        f'  Strategy = "{strategy}"',
        f"  NormalizeOn = {'TRUE' if normalize else 'FALSE'}",
        f"  MaxOps = {maxops}",
        f'  Variant = "{variant}"',
        f'  Universe = "{universe}"',
        "  StyleSet = {" + ", ".join(f'"{s}"' for s in styles) + "}",
        "  ColTexts = {" + ", ".join(f'"{c}"' for c in cols) + "}",
        "INIT Init",
        "NEXT Next",
        "VIEW View",
    ]
    if check:
        lines += ["INVARIANT Coherent", "PROPERTY AnswersOK"]
    if emit:
        lines.append("ACTION_CONSTRAINT Emit")
    with open(path, "w") as f:
        f.write("\n".join(lines) + "\n")


# ------------------------------------------------------------------------------------------
# spec -> code: replay of model histories on a real MappingSchema
# ------------------------------------------------------------------------------------------
def _render_ref(parts, q, as_obj, dialect_obj):
    from sqlglot import exp

    if as_obj:
        names = list(parts)
        t = names[-1]
        d = names[-2] if len(names) > 1 else None
        c = names[-3] if len(names) > 2 else None
        return exp.table_(t, db=d, catalog=c, quoted=q)
    qs, qe = dialect_obj.IDENTIFIER_START, dialect_obj.IDENTIFIER_END
    return ".".join(f"{qs}{p}{qe}" if q else p for p in parts)


def _render_col(c, st, dialect_obj):
    from sqlglot import exp

    if st == "s":
        return c
    if st == "sq":
        return f"{dialect_obj.IDENTIFIER_START}{c}{dialect_obj.IDENTIFIER_END}"
    return exp.column(c, quoted=(st == "iq"))


def _type_name(dt):
    s = dt.sql().lower()
    return {"int": "int", "text": "text", "unknown": "unknown"}.get(s, s)


def _do_lookup(schema, call, dialect_obj, as_obj):
    from sqlglot.errors import SchemaError

    ref = _render_ref(call["parts"], call["q"], as_obj, dialect_obj)
    op = call["op"]
    try:
        if op == "column_names":
            return ["cols", list(schema.column_names(ref))]
        col = _render_col(call["col"], call["cst"], dialect_obj)
        if op == "has_column":
            return ["bool", ["T" if schema.has_column(ref, col) else "F"]]
        if op == "get_column_type":
            return ["type", [_type_name(schema.get_column_type(ref, col))]]
    except SchemaError:
        return ["SchemaError", []]
    raise MachineryError(f"unknown op {op}")


def _fresh(schema, dialect):
    """A schema freshly constructed from the current mapping (the property's own oracle)."""
    import copy

    from sqlglot.schema import MappingSchema

    f = MappingSchema(copy.deepcopy(schema.mapping), dialect=dialect or None, normalize=False)
    f.normalize = schema.normalize
    return f


def run_history(h, dialect, normalize, salt=0):
    """Executes a history on a real MappingSchema. Returns (answers, fresh answer of the last call)."""
    from sqlglot.dialects.dialect import Dialect
    from sqlglot.errors import SchemaError
    from sqlglot.schema import MappingSchema

    d = Dialect.get_or_raise(dialect or None)
    schema = None
    answers = []
    fresh_last = None
    for i, call in enumerate(h):
        as_obj = ((salt + i * 7 + len(call["parts"])) % 3) == 0
        op = call["op"]
        if op == "construct":
            qs, qe = d.IDENTIFIER_START, d.IDENTIFIER_END
            keys = [f"{qs}{p}{qe}" if call["q"] else p for p in call["parts"]]
            m = {c[0]: c[1] for c in call["cols"]}
            for k in reversed(keys):
                m = {k: m}
            schema = MappingSchema(m, dialect=dialect or None, normalize=normalize)
            answers.append(["ok", []])
            continue
        if schema is None:
            schema = MappingSchema(dialect=dialect or None, normalize=normalize)
        if op == "add_table":
            ref = _render_ref(call["parts"], call["q"], as_obj, d)
            try:
                schema.add_table(ref, {c[0]: c[1] for c in call["cols"]})
                answers.append(["ok", []])
            except SchemaError:
                answers.append(["SchemaError", []])
        else:
            answers.append(_do_lookup(schema, call, d, as_obj))
            if i == len(h) - 1:
                fresh_last = _do_lookup(_fresh(schema, dialect), call, d, as_obj)
    return answers, fresh_last


def _replay_chunk(arg):
    import sys

    sys.path.insert(0, os.environ.get("VERIF_REPO", "/repo"))
    from lib.guard import HardTimeout, limits, time_limit

    recs, dialect, normalize, salt = arg
    if isinstance(recs, str):
        from lib.spill import load

        recs = load(recs)
    limits()
    bad, drift, errs = [], [], []
    n = nontrivial = 0
    for rec in recs:
        h = rec["h"]
        last = h[-1]
        n += 1
        if last["op"] in ("construct", "add_table") and rec["got"][0] == "ok":
            continue
        try:
            with time_limit(10):
                answers, fresh_last = run_history(h, dialect, normalize, salt)
        except (Exception, HardTimeout) as e:
            errs.append({"h": h, "err": f"{type(e).__name__}: {e}"})
            continue
        got = answers[-1]
        ops = [c["op"] for c in h]
        if any(o in ("add_table",) for o in ops[1:]) and any(o not in ("add_table", "construct") for o in ops[:-1]):
            nontrivial += 1
        model = [rec["got"][0], list(rec["got"][1])]
        if fresh_last is not None and got != fresh_last:
            bad.append({"h": h, "real": got, "fresh": fresh_last, "model": model, "dialect": dialect, "normalize": normalize, "salt": salt})
        elif got != model:
            drift.append({"h": h, "real": got, "model": model, "dialect": dialect})
    return n, nontrivial, bad, drift, errs


def _key(b):
    ops = [c["op"] for c in b["h"]]
    last = b["h"][-1]
    shape = []
    if any(c.get("cst") in ("i", "iq") for c in b["h"][:-1]):
        shape.append("IdentifierArgEarlier")
    if ops.count("add_table") + ops.count("construct") >= 2:
        shape.append("MultiAdd")
    if len(last["parts"]) < max(len(c["parts"]) for c in b["h"]):
        shape.append("PartialRef")
    return f"{last['op']}:{'+'.join(shape) or 'plain'}"


def replay_config(ctx, *, depth, strategy, normalize, maxops, styles, cols, dialects, label, universe="small"):
    cfg = os.path.join(ctx.work, f"emit_{depth}_{strategy}_{int(normalize)}_{maxops}_{universe}.cfg")
    write_cfg(cfg, depth=depth, strategy=strategy, normalize=normalize, maxops=maxops, styles=styles, cols=cols, emit=True, check=True, universe=universe)
    res = tlc.run("Schema", cfg, ctx.work, workers=16, timeout_s=2400, allow_violation=False)
    ctx.model(res, "Schema", cfg, f"exhaustive + transition emission ({label}): Coherent, AnswersOK")
    recs = res.printed
    if abs(len(recs) - res.generated) > 1:
        raise MachineryError(f"emitted {len(recs)} transitions, TLC generated {res.generated}")
    import gc

    from lib.spill import spill

    chunks = [recs[i::64] for i in range(64)]
    sample_rec = recs[len(recs) // 2] if recs else None
    res.stdout = ""
    res.printed = recs = None  # workers read their share from disk; nothing large is inherited through fork
    for di, dialect in enumerate(dialects):
        paths = spill(ctx.work, f"c18_{label}_{di}", chunks)
        if di == len(dialects) - 1:
            chunks = None
        gc.collect()
        tot = nt = 0
        bad, drift, errs = [], [], []
        with ProcessPoolExecutor(max_workers=16) as ex:
            for n, k, b, d, e in ex.map(_replay_chunk, [(pth, dialect, normalize, ctx.seed + j) for j, pth in enumerate(paths)]):
                tot += n
                nt += k
                bad += b
                drift += d
                errs += e
        ctx.count(tot, traces=tot)
        for i in range(nt):
            ctx.nontrivial((depth, strategy, normalize, dialect, maxops, i))
        ctx.notes.setdefault("replay", []).append(
            {"depth": depth, "strategy": strategy, "normalize": normalize, "dialect": dialect or "base", "max_ops": maxops,
             "histories": tot, "lookup_after_add_after_lookup": nt, "violations": len(bad), "drift": len(drift), "errors": len(errs)}
        )
        for b in bad:
            ctx.violation(
                _key(b),
                f"after {[c['op'] for c in b['h']]} the schema answers {b['real']} but a fresh schema over the same mapping answers {b['fresh']} (dialect {dialect or 'base'})",
                {"kind": "history", **b},
            )
        for d in drift[:5]:
            ctx.drift(f"real answer {d['real']} differs from Schema.tla {d['model']} (fresh schema agrees with the real one) after {[c['op'] for c in d['h']]} [{dialect or 'base'}]", d)
        for e in errs[:5]:
            ctx.drift(f"history raised {e['err']}: {[c['op'] for c in e['h']]}")
        if len(errs) > tot // 20:
            raise MachineryError(f"{len(errs)} of {tot} histories crashed: {errs[0]}")
    if sample_rec:
        r = sample_rec
        ctx.sample({"kind": "replayed model history", "depth": depth, "strategy": strategy, "history": r["h"], "model_answer": r["got"]})


def run(ctx):
    ctx.assumptions += [
        "match_depth=True (default); tables are registered with at least one column (a fresh MappingSchema rejects empty tables)",
        "the reference 'fresh schema' is MappingSchema(deepcopy(mapping), normalize=False) with .normalize restored, i.e. the already-normalised final mapping",
    ]
    ctx.cov["rule"] = (
        "every transition of Schema.tla within the bound is replayed on a real MappingSchema per dialect; distinct by construction "
        "(one per (state, call)); non-trivial = the history has a lookup, then an add_table, then the judged lookup"
    )
    # negative controls: the model must see each class of staleness
    for variant, strat, ops, cols in (
        ("evict_two_keys", "LOWERCASE", 3, ("a", "A")),
        ("evict_on_new_only", "LOWERCASE", 3, ("a", "A")),
        ("name_key_no_quote", "LOWERCASE", 3, ("a", "A")),
        ("name_key_no_kind", "BQ", 3, ("a", "T", "t")),
        ("negative_cache", "LOWERCASE", 4, ("a", "A")),
    ):
        cfg = os.path.join(ctx.work, f"neg_{variant}.cfg")
        write_cfg(cfg, depth=2, strategy=strat, maxops=ops, variant=variant, cols=cols)
        res = tlc.run("Schema", cfg, ctx.work, workers=16, timeout_s=900)
        if not res.violated:
            raise MachineryError(f"negative control {variant} not detected by the model")
        ctx.notes.setdefault("negative_controls", {})[variant] = res.violated
    if ctx.thorough:
        plan = [
            # maxops=4 over the small universe emits ~10^7 transitions (tens of GB once decoded): the 4-operation histories run on the tiny universe
            dict(depth=2, strategy="LOWERCASE", normalize=True, maxops=4, styles=("s",), cols=("a",), dialects=["", "postgres"], universe="tiny"),
            dict(depth=2, strategy="LOWERCASE", normalize=True, maxops=3, styles=("s", "iq"), cols=("a", "A"), dialects=["", "postgres"]),
            dict(depth=2, strategy="LOWERCASE", normalize=True, maxops=3, styles=("s", "sq", "i", "iq"), cols=("a", "A", "T"), dialects=[""]),
            dict(depth=2, strategy="UPPERCASE", normalize=True, maxops=3, styles=("s", "sq", "i", "iq"), cols=("a", "A"), dialects=["snowflake", "oracle"]),
            dict(depth=2, strategy="CASE_SENSITIVE", normalize=True, maxops=3, styles=("s", "iq"), cols=("a", "A"), dialects=["mysql", "clickhouse"]),
            dict(depth=2, strategy="CASE_INSENSITIVE", normalize=True, maxops=3, styles=("s", "iq"), cols=("a", "A"), dialects=["duckdb", "sqlite", "presto"]),
            dict(depth=2, strategy="CASE_INSENSITIVE_UPPERCASE", normalize=True, maxops=3, styles=("s", "iq"), cols=("a", "A"), dialects=STRATEGY_DIALECTS["CASE_INSENSITIVE_UPPERCASE"]),
            dict(depth=2, strategy="BQ", normalize=True, maxops=3, styles=("s", "iq"), cols=("a", "T", "t"), dialects=["bigquery"]),
            dict(depth=3, strategy="LOWERCASE", normalize=True, maxops=3, styles=("s", "iq"), cols=("a", "A"), dialects=[""]),
            dict(depth=1, strategy="LOWERCASE", normalize=True, maxops=3, styles=("s", "iq"), cols=("a", "A"), dialects=["", "postgres"]),
            dict(depth=2, strategy="LOWERCASE", normalize=False, maxops=3, styles=("s", "iq"), cols=("a", "A"), dialects=[""]),
            dict(depth=3, strategy="BQ", normalize=True, maxops=3, styles=("s",), cols=("a", "T"), dialects=["bigquery"]),
        ]
    else:
        rot = [
            dict(depth=2, strategy="UPPERCASE", normalize=True, maxops=3, styles=("s", "iq"), cols=("a", "A"), dialects=["snowflake"]),
            dict(depth=2, strategy="CASE_SENSITIVE", normalize=True, maxops=3, styles=("s", "iq"), cols=("a", "A"), dialects=["mysql"]),
            dict(depth=2, strategy="CASE_INSENSITIVE", normalize=True, maxops=3, styles=("s", "iq"), cols=("a", "A"), dialects=["duckdb"]),
            dict(depth=3, strategy="LOWERCASE", normalize=True, maxops=3, styles=("s",), cols=("a", "A"), dialects=[""]),
            dict(depth=2, strategy="LOWERCASE", normalize=False, maxops=3, styles=("s", "iq"), cols=("a", "A"), dialects=[""]),
        ]
        plan = [
            dict(depth=2, strategy="LOWERCASE", normalize=True, maxops=3, styles=("s", "iq"), cols=("a", "A"), dialects=[""]),
            dict(depth=2, strategy="BQ", normalize=True, maxops=3, styles=("s",), cols=("a", "T"), dialects=["bigquery"]),
            dict(depth=2, strategy="LOWERCASE", normalize=True, maxops=4, styles=("s",), cols=("a",), dialects=["postgres"], universe="tiny"),
            rot[ctx.seed % len(rot)],
        ]
    for p in plan:
        replay_config(ctx, label=ctx.tier, **p)
    ctx.cov["exhaustive"] = True


def replay(ctx, payload):
    p = payload["payload"]
    answers, fresh_last = run_history(p["h"], p["dialect"], p["normalize"], p.get("salt", 0))
    if fresh_last is not None and answers[-1] != fresh_last:
        return f"schema answers {answers[-1]}, fresh schema answers {fresh_last} after {[c['op'] for c in p['h']]}"
    return None
