"""C05 — tokenize, parse and generate always terminate with a result or a sqlglot error
(spec/Cursor.tla design model, spec/Mutate.tla inputs, spec/CursorTrace.tla acceptor for recorded cursor events;
step counters from the guarded hooks make non-termination and super-polynomial work deterministic verdicts)."""
from __future__ import annotations

import json
import os
import traceback
from concurrent.futures import ProcessPoolExecutor

from lib import mutate, tlc
from lib.tlc import MachineryError
from lib.tracejudge import judge

LEVELS = ["IGNORE", "WARN", "RAISE", "IMMEDIATE"]
TARGETS = ["", "duckdb", "mysql", "tsql", "bigquery", "hive", "oracle", "clickhouse", "snowflake", "postgres", "sqlite", "presto"]

PUMPS = {
    "parens": lambda k: "SELECT " + "(" * k + "1" + ")" * k,
    "not": lambda k: "SELECT " + "NOT " * k + "a",
    "case": lambda k: "SELECT " + "CASE WHEN a THEN " * k + "1" + " END" * k,
    "subquery": lambda k: "SELECT * FROM " + "(SELECT * FROM " * k + "t" + ")" * k,
    "func": lambda k: "SELECT " + "f(" * k + "1" + ")" * k,
    "cast": lambda k: "SELECT " + "CAST(" * k + "1" + " AS INT)" * k,
    "list": lambda k: "SELECT " + ", ".join(f"c{i}" for i in range(k)) + " FROM t",
    "and_chain": lambda k: "SELECT 1 WHERE " + " AND ".join(f"a{i} = {i}" for i in range(k)),
    "join_on": lambda k: "SELECT * FROM t0 " + " ".join(f"JOIN t{i} ON t{i}.a = t0.a" for i in range(1, k + 1)),
    "union": lambda k: " UNION ALL ".join(f"SELECT {i}" for i in range(k)),
    "in_list": lambda k: "SELECT a IN (" + ", ".join(str(i) for i in range(k)) + ")",
    "plus": lambda k: "SELECT " + " + ".join(str(i) for i in range(k)),
    "cte": lambda k: "WITH " + ", ".join(f"c{i} AS (SELECT {i})" for i in range(k)) + " SELECT * FROM c0",
    "bracket": lambda k: "SELECT a" + "[1]" * k,
    "dot": lambda k: "SELECT " + ".".join(f"a{i}" for i in range(k + 1)),
    "statements": lambda k: "; ".join(f"SELECT {i}" for i in range(k)),
    "window": lambda k: "SELECT " + ", ".join(f"SUM(a{i}) OVER (PARTITION BY b ORDER BY c)" for i in range(k)),
    "values": lambda k: "INSERT INTO t VALUES " + ", ".join(f"({i}, 'x')" for i in range(k)),
}


def write_cfg(path, *, n, variant="code"):
    with open(path, "w") as f:
        f.write(f'CONSTANTS\n  N = {n}\n  MaxFrames = 2\n  Variant = "{variant}"\nINIT Init\nNEXT Next\nINVARIANT InRange\nINVARIANT SavedBelow\nPROPERTY NoFreeIteration\n')


def _site(e):
    """innermost sqlglot frame of a leaked exception: (file, function)"""
    tb = traceback.extract_tb(e.__traceback__)
    for fr in reversed(tb):
        if "/sqlglot/" in fr.filename:
            return f"{os.path.basename(fr.filename)}:{fr.name}"
    return "?"


def _ours(e):
    import sqlglot.errors as er

    return isinstance(e, (er.SqlglotError,))


def _budget(ntokens):
    return 20000 + 60 * ntokens * ntokens


def exercise(sql, dialect, level, target, record_cursor=False):
    """tokenize -> parse -> generate/transpile one input. Returns the list of problems and the measured work."""
    import sqlglot
    from sqlglot import _verif
    from sqlglot.errors import ErrorLevel
    from lib.guard import HardTimeout

    problems = []
    work = {"t": 0, "p": 0, "g": 0, "n": 0}
    evs = []
    main = []

    def sink(ev, f):
        if ev == "advance":
            if not main:
                main.append(f["pid"])
            if f["pid"] == main[0] and len(evs) < 4000:
                evs.append({"i": f["index"], "t": f["times"], "n": f["size"]})

    d = dialect or None
    toks = None
    try:
        _verif.reset_steps(20000 + 400 * len(sql))
        toks = sqlglot.tokenize(sql, read=d)
        work["t"] = _verif.steps["t"]
        work["n"] = len(toks)
    except _verif.StepBudgetExceeded:
        problems.append(("tokenize", "StepBudgetExceeded", "tokenizer"))
        return problems, work, evs
    except HardTimeout:
        raise
    except Exception as e:
        if not _ours(e):
            problems.append(("tokenize", type(e).__name__, _site(e)))
        return problems, work, evs
    trees = None
    try:
        _verif.reset_steps(_budget(len(toks)))
        if record_cursor:
            _verif.sink = sink
        try:
            trees = sqlglot.parse(sql, read=d, error_level=getattr(ErrorLevel, level))
        finally:
            _verif.sink = None
        work["p"] = _verif.steps["p"]
    except _verif.StepBudgetExceeded:
        problems.append(("parse", "StepBudgetExceeded", "parser"))
        work["p"] = _verif.steps["p"]
    except RecursionError:
        problems.append(("parse", "RecursionError", ""))
    except HardTimeout:
        raise
    except Exception as e:
        if not _ours(e):
            problems.append(("parse", type(e).__name__, _site(e)))
    if trees:
        for tr in trees:
            if tr is None:
                continue
            try:
                _verif.reset_steps(40000 + 3000 * len(toks))
                tr.sql(dialect=target or None)
                work["g"] += _verif.steps["g"]
            except _verif.StepBudgetExceeded:
                problems.append(("generate", "StepBudgetExceeded", "generator"))
            except RecursionError:
                problems.append(("generate", "RecursionError", ""))
            except HardTimeout:
                raise
            except Exception as e:
                if not _ours(e):
                    problems.append(("generate", type(e).__name__, _site(e)))
    _verif.reset_steps(0)
    return problems, work, evs


def _chunk(arg):
    import sys

    sys.path.insert(0, os.environ.get("VERIF_REPO", "/repo"))
    import logging

    logging.getLogger("sqlglot").setLevel(logging.CRITICAL)
    from lib.guard import HardTimeout, limits, time_limit
    from sqlglot.dialects.dialect import Dialect

    limits()
    _ = Dialect.classes
    out = []
    for w in arg:
        try:
            with time_limit(40):
                problems, work, evs = exercise(w["sql"], w["dialect"], w["level"], w["target"], record_cursor=w.get("cursor", False))
        except HardTimeout:
            problems, work, evs = [("any", "WallClockTimeout", "")], {"t": 0, "p": 0, "g": 0, "n": 0}, []
        out.append({"meta": w, "problems": problems, "work": work, "evs": evs})
    return out


def run(ctx):
    ctx.assumptions += [
        "work is measured in steps of the guarded counters (Tokenizer._advance, Parser._advance, Generator.sql); the budgets are 20000+400*len for tokenizing, "
        "20000+60*n^2 parser steps for n tokens, 40000+3000*n generator steps: exceeding one is reported as non-termination / super-polynomial work",
        "pumped families are capped at k = 32 (deep nesting reaches Python's recursion limit, a listed finding keyed by RecursionError)",
    ]
    ctx.cov["rule"] = (
        "inputs: frozen valid statements, TLC-generated token mutations (single, double, 3-statement scripts, soft-keyword sweep), truncated prefixes, pumped families; "
        "x dialects x 4 error levels x target dialects; each input is tokenized, parsed and every returned tree generated under step budgets; the outcome must be a value "
        "or a sqlglot error; recorded cursor events are validated by TLC (CursorTrace); distinct by (sql, dialect, level, target); non-trivial = the input does not parse cleanly"
    )
    # 1. design model
    cfg = os.path.join(ctx.work, "cursor.cfg")
    write_cfg(cfg, n=4 if ctx.thorough else 3)
    res = tlc.run("Cursor", cfg, ctx.work, workers=8, timeout_s=900, allow_violation=False)
    ctx.model(res, "Cursor", cfg, "cursor/frames model: InRange, SavedBelow, NoFreeIteration")
    for v, n in (("no_progress", 3), ("retreat_off_by_one", 3)):
        cfg = os.path.join(ctx.work, f"neg_{v}.cfg")
        write_cfg(cfg, n=n, variant=v)
        r = tlc.run("Cursor", cfg, ctx.work, workers=4, timeout_s=300)
        if not r.violated:
            raise MachineryError(f"negative control {v} not detected")
        ctx.notes.setdefault("negative_controls", {})[v] = r.violated
    # 2. inputs: a fixed, triaged space; the seed selects a slice in the quick tier
    base = mutate.bases()
    big = ctx.thorough
    muts = mutate.generate(ctx, "single", 6000, seed=1) + mutate.generate(ctx, "double", 700, seed=1) + mutate.generate(ctx, "script", 2000, seed=1) + mutate.generate(ctx, "sweep", 60)
    sqls = list(base)
    for m in muts:
        sqls.append(mutate.render(m, base))
    for b in base[:60]:
        toks = mutate.tokens_of(b)
        for cut in range(1, min(len(toks), 12)):
            sqls.append(" ".join(toks[:cut]))
    from lib import producers

    dialects = producers.all_dialects()
    probes = producers.corpus_probes()
    work = []
    for i, sql in enumerate(sqls):
        work.append({"sql": sql, "dialect": dialects[i % len(dialects)] if i % 3 else "", "level": LEVELS[i % 4], "target": TARGETS[(i // 4) % len(TARGETS)], "cursor": i % 7 == 0})
    for i, pr in enumerate(probes):
        toks = mutate.tokens_of(pr["sql"])
        for j in range(4):
            work.append({"sql": pr["sql"], "dialect": pr["dialect"], "level": LEVELS[j], "target": dialects[(i + j * 9) % len(dialects)], "cursor": j == 0})
        for cut in range(1, min(len(toks), 10)):
            work.append({"sql": " ".join(toks[:cut]), "dialect": pr["dialect"], "level": LEVELS[cut % 4], "target": pr["dialect"], "cursor": False})
    for i, (sql, d) in enumerate(mutate.dialect_sweep()):
        work.append({"sql": sql, "dialect": d, "level": LEVELS[i % 4], "target": d if i % 2 else dialects[(i // 2) % len(dialects)], "cursor": i % 11 == 0})
    if not big:
        work = work[ctx.seed % 2 :: 2]
    pump = []
    for fam, fn in PUMPS.items():
        for k in (4, 8, 16, 32):
            pump.append({"sql": fn(k), "dialect": "", "level": "IMMEDIATE", "target": "", "cursor": False, "family": fam, "k": k})
    chunks = [(work + pump)[i::64] for i in range(64)]
    results = []
    with ProcessPoolExecutor(max_workers=16) as ex:
        for o in ex.map(_chunk, [c for c in chunks if c]):
            results += o
    ctx.count(len(results))
    classes = {}
    for r in results:
        m = r["meta"]
        if r["problems"] or r["work"]["p"] == 0:
            ctx.nontrivial((m["sql"], m["dialect"], m["level"], m["target"]))
        for phase, exc, site in r["problems"]:
            classes[f"{phase}:{exc}"] = classes.get(f"{phase}:{exc}", 0) + 1
            key = f"{phase}:{exc}:{site}" if exc not in ("RecursionError",) else f"{exc}"
            ctx.violation(key, f"{phase} of {m['sql'][:200]!r} (dialect {m['dialect'] or 'base'}, level {m['level']}, target {m['target'] or 'base'}) ends with {exc} in {site or '-'}",
                          {k: m[k] for k in ("sql", "dialect", "level", "target")} | {"phase": phase, "exc": exc, "site": site})
    # growth of work along pumped families: cubic growth allowed (ratio <= 8 per doubling, with slack), exponential is not
    fams = {}
    for r in results:
        if "family" in r["meta"] and not r["problems"]:
            fams.setdefault(r["meta"]["family"], {})[r["meta"]["k"]] = r["work"]["t"] + r["work"]["p"] + r["work"]["g"]
    growth = {}
    for fam, by in sorted(fams.items()):
        ks = sorted(by)
        ratios = [round(by[b] / max(1, by[a]), 2) for a, b in zip(ks, ks[1:])]
        growth[fam] = {"steps": [by[k] for k in ks], "ratios": ratios}
        if any(x > 8.8 for x in ratios):
            ctx.violation(f"growth:{fam}", f"work along the pumped family {fam} grows faster than cubic: steps {growth[fam]['steps']} for k = {ks}", {"family": fam, "steps": growth[fam]["steps"], "sql": PUMPS[fam](8), "dialect": "", "level": "IMMEDIATE", "target": "", "phase": "growth", "exc": "", "site": ""})
    # 3. cursor events validated by TLC
    cases = [{"evs": r["evs"], "meta": r["meta"]} for r in results if r["evs"]]
    verdicts = judge(ctx, "CursorTrace", cases, "cursor", per_shard=800)
    ctx.cov["traces_validated_against_impl"] += len(cases)
    cur = {}
    for c in cases:
        v = verdicts[c["id"]][0]
        cur[v] = cur.get(v, 0) + 1
        if v != "OK":
            m = c["meta"]
            ctx.violation(f"cursor:{v}", f"parser cursor {v} while parsing {m['sql'][:160]!r} ({m['dialect'] or 'base'}, {m['level']})", {k: m[k] for k in ("sql", "dialect", "level", "target")} | {"phase": "cursor", "exc": v, "site": ""})
    ctx.notes.update({"inputs": len(results), "problem_classes": classes, "growth": growth, "cursor_traces": cur})
    for r in [r for r in results if r["evs"]][:2]:
        ctx.sample({"sql": r["meta"]["sql"][:160], "dialect": r["meta"]["dialect"], "level": r["meta"]["level"], "work_steps": r["work"], "first_cursor_events": r["evs"][:6]})
    ctx.cov["exhaustive"] = False


def replay(ctx, payload):
    p = payload["payload"]
    if p["phase"] == "growth":
        return None
    out = _chunk([{"sql": p["sql"], "dialect": p["dialect"], "level": p["level"], "target": p["target"], "cursor": p["phase"] == "cursor"}])
    for r in out:
        for phase, exc, site in r["problems"]:
            if exc == p["exc"]:
                return f"{phase} ends with {exc} in {site}"
    return None
