"""C15 - results are deterministic and independent of earlier calls.

  * History.tla: an interpreter handling a sequence of calls on fresh / reused component instances, with the per-instance
    fields a call dirties, the reset lists, and process-wide caches; TLC checks HistoryIndependent / ReuseEqFresh over every
    history (negative controls: a field missing from a reset list, a cache keyed by a non-injective key) and emits the
    histories.
  * spec -> code: every emitted history is bound to pools of real calls and executed in its own cold interpreter
    (lib/c15_child.py) under a string-hash seed; single calls are executed under several seeds.
  * code -> spec: HistoryTrace.tla compares each step's answer with the reference (the same call alone, hash seed 0).
"""
from __future__ import annotations

import json
import os
import subprocess
import zlib
from concurrent.futures import ThreadPoolExecutor

from lib import producers, tlc
from lib.harness import REPO
from lib.tlc import MachineryError
from lib.tracejudge import judge

CHILD = os.path.join(os.path.dirname(os.path.dirname(os.path.abspath(__file__))), "lib", "c15_child.py")
PY = "/venv/bin/python"
NSLOTS = 5
SEEDS = ["0", "1", "2", "3", "17", "4242", "99991"]


def h(*xs):
    return zlib.crc32(json.dumps(xs, sort_keys=True).encode())


def child(steps, seed, timeout=180):
    env = {k: v for k, v in os.environ.items() if k != "PYTHONPATH"}
    env["PYTHONHASHSEED"] = str(seed)
    env["SQLGLOT_VERIF"] = "0"
    try:
        p = subprocess.run([PY, CHILD, json.dumps({"repo": REPO, "steps": steps})], capture_output=True, text=True, timeout=timeout, env=env, cwd="/")
    except subprocess.TimeoutExpired:
        return {"outs": [], "timeout": True}
    lines = [ln for ln in p.stdout.splitlines() if ln.startswith('{"outs"')]
    if not lines:
        return {"outs": [], "crash": p.stderr[-500:]}
    return json.loads(lines[-1])


def pmap(fn, items, workers=16):
    with ThreadPoolExecutor(max_workers=workers) as ex:
        return list(ex.map(fn, items))


# ------------------------------------------------------------------ call pools
CASE_NAMES = ['"ORDERS"', '"Orders"', '"orders"', '"oRders"']
SPECIAL_POOLS = [
    # names equal up to case in one join layer; duplicated / complementary boolean operands; duplicated CTE bodies
    [
        {"api": "optimize_noschema", "sql": 'SELECT x.a FROM x JOIN orders AS "Orders" ON x.a = "Orders".a JOIN orders AS "orders" ON x.a = "orders".a JOIN orders AS "ORDERS" ON x.a = "ORDERS".a JOIN orders AS "oRders" ON x.a = "oRders".a', "read": "postgres"},
        {"api": "simplify", "sql": 'SELECT 1 WHERE ("A" OR "a" OR b) AND ("a" OR "A") AND (b OR NOT b OR c) AND ("B" = 1 OR "b" = 1) AND (x AND y OR x AND NOT y)', "read": ""},
        {"api": "optimize", "sql": "WITH c1 AS (SELECT a FROM t), C1 AS (SELECT a FROM t), c2 AS (SELECT a FROM u) SELECT * FROM c1, C1, c2, (SELECT a FROM t) AS d, (SELECT a FROM u) AS e", "read": "snowflake"},
        {"api": "optimize_joins", "sql": 'SELECT * FROM x JOIN y ON x.b = y.b JOIN z ON x.a = z.a JOIN n AS "T" ON "T".a = x.a JOIN n AS "t" ON "t".a = x.a JOIN n AS "U" ON x.a = "U".a JOIN n AS "u" ON x.a = "u".a JOIN n AS "V" ON "T".a = "V".a JOIN n AS "v" ON "T".a = "v".a', "read": "postgres"},
        {"api": "lineage", "sql": "SELECT s.a, s.b + u.d AS k FROM (SELECT a, b FROM t UNION ALL SELECT a, a FROM u) AS s JOIN u ON s.a = u.a", "read": ""},
    ],
    # pipe syntax (parser-generated CTE names), generated aliases
    [
        {"api": "parse", "sql": "FROM t |> SELECT a, b |> WHERE a > 1 |> AGGREGATE SUM(b) AS s GROUP BY a", "read": "bigquery"},
        {"api": "parse", "sql": "FROM u |> WHERE d > 0 |> SELECT a |> ORDER BY a |> LIMIT 3", "read": "bigquery"},
        {"api": "generate", "sql": "SELECT * FROM (VALUES (1)) AS (a), UNNEST(ARRAY[1]) AS (b)", "read": "", "write": "duckdb"},
        {"api": "parse", "sql": "SELECT * FROM t |> WHERE a = 1 |> SELECT b", "read": "bigquery"},
        {"api": "tokenize", "sql": "SELECT 'a''b', $$x$$, 1.5e3 /* c */ -- d\nFROM t", "read": "postgres"},
    ],
    # duplicated / absorbed / complementary operands in every order: the canonical order must not come from a hash
    [
        {"api": "simplify", "sql": "SELECT 1 WHERE a AND a AND b AND c AND c AND d AND d", "read": ""},
        {"api": "simplify", "sql": "SELECT 1 WHERE x = 1 OR x = 1 OR y = 2 OR y = 2 OR z = 3 OR z = 3 OR w = 4", "read": ""},
        {"api": "simplify", "sql": "SELECT 1 WHERE (p AND (p OR q)) OR (r AND NOT r) OR (s OR (s AND u)) OR (v AND w) OR (v AND NOT w)", "read": "", "dnf": True},
        {"api": "optimize", "sql": "SELECT a FROM t WHERE (a = 1 AND b = 2) OR (b = 2 AND a = 1) OR (a = 1 AND b = 2 AND c = 'x')", "read": ""},
        {"api": "simplify", "sql": "SELECT 1 WHERE \"A\" AND \"A\" AND \"a\" AND \"a\" AND b AND b", "read": ""},
    ],
    # dialect classes produced by a factory: same qualified name, different tables and methods
    [
        {"api": "custom", "base": "", "variant": 0, "sql": "SELECT CURRENT_TIMESTAMP, CURRENT_DATE, TRIM(a)"},
        {"api": "custom", "base": "", "variant": 1, "sql": "SELECT CURRENT_TIMESTAMP, CURRENT_DATE, TRIM(a)"},
        {"api": "custom", "base": "postgres", "variant": 2, "sql": "SELECT CURRENT_TIMESTAMP, CURRENT_DATE, TRIM(a)"},
        {"api": "custom", "base": "mysql", "variant": 3, "sql": "SELECT CURRENT_TIMESTAMP, CURRENT_DATE, TRIM(a)"},
        {"api": "transpile", "sql": "SELECT CURRENT_TIMESTAMP, CURRENT_DATE, TRIM(a)", "read": "", "write": "postgres"},
    ],
]


def corpus_calls():
    calls = []
    dialects = [d for d in producers.all_dialects()]
    for n, sql in enumerate(producers.corpus_identity()):
        d = dialects[h("d", sql) % len(dialects)]
        api = ["tokenize", "parse", "generate", "transpile"][h("a", sql) % 4]
        calls.append({"api": api, "sql": sql, "read": "", "write": d, "pretty": h("p", sql) % 3 == 0})
    for r in producers.corpus_optimizer():
        f = r["file"]
        api = {"simplify": "simplify", "normalize": "simplify", "annotate_types": "annotate"}.get(f, ["optimize", "qualify", "lineage", "annotate"][h("o", r["sql"]) % 4])
        if f in ("annotate_functions",):
            continue
        calls.append({"api": api, "sql": r["sql"], "read": r["dialect"] or ""})
    for r in producers.corpus_probes():
        calls.append({"api": ["parse", "transpile", "generate"][h("q", r["sql"]) % 3], "sql": r["sql"], "read": r["dialect"], "write": r["dialect"]})
    return calls


def run(ctx):
    ctx.assumptions += [
        "the reference answer of a call is the call alone in a fresh interpreter with PYTHONHASHSEED=0 and fresh component instances",
        "answers are compared as text: tokens with positions, repr of parsed trees, generated SQL, annotated types, lineage leaf names",
        "the AST diff is excluded (the property exempts the order of its Keep/Move entries)",
    ]
    ctx.cov["rule"] = (
        "histories of up to 3 calls (4 in thorough) over 5 call slots x {fresh, reused instance}, emitted by TLC from History.tla, bound to pools of 5 real calls "
        "(3 fixed pools of constructs whose order/naming could depend on hashing or on earlier calls + pools drawn from the corpora) and run in cold interpreters under "
        "7 string-hash seeds; distinct by (pool, history, seed); non-trivial = the history has at least 2 steps or a non-zero seed"
    )
    # ---------------------------------------------------------------- model
    def cfg(name, variant, maxlen, emit):
        p = os.path.join(ctx.work, name)
        with open(p, "w") as f:
            f.write(f'CONSTANTS\n  Slots = {{0, 1, 2, 3, 4}}\n  MaxLen = {maxlen}\n  Variant = "{variant}"\nSPECIFICATION Spec\nINVARIANT HistoryIndependent\nINVARIANT ReuseEqFresh\n' + ("ACTION_CONSTRAINT Emit\n" if emit else ""))
        return p

    maxlen = 4 if ctx.thorough else 3
    c = cfg("history_code.cfg", "code", maxlen, True)
    res = tlc.run("History", c, ctx.work, workers=8, timeout_s=900, allow_violation=False)
    ctx.model(res, "History", c, f"all histories of length <= {maxlen} over 5 call slots x fresh/reused; HistoryIndependent, ReuseEqFresh")
    hists = sorted({json.dumps(p["hist"]) for p in res.printed})
    hists = [json.loads(x) for x in hists]
    if len(hists) < 100:
        raise MachineryError(f"History emitted only {len(hists)} histories")
    for v, inv in (("parser_counter_not_reset", "ReuseEqFresh"), ("generator_names_not_reset", "ReuseEqFresh"), ("cache_key_by_name", "HistoryIndependent")):
        r = tlc.run("History", cfg(f"history_{v}.cfg", v, 3, False), ctx.work, workers=8, timeout_s=600)
        if inv not in r.violated and "HistoryIndependent" not in r.violated:
            raise MachineryError(f"negative control {v}: no invariant violated")
    ctx.notes["negative_controls"] = "parser_counter_not_reset, generator_names_not_reset, cache_key_by_name each violate an invariant"
    # ---------------------------------------------------------------- pools
    calls = corpus_calls()
    npools = 24 if ctx.thorough else 4
    pools = [list(p) for p in SPECIAL_POOLS]
    order = sorted(range(len(calls)), key=lambda k: h(ctx.seed, k))
    for p in range(npools):
        pools.append([calls[order[(p * NSLOTS + j) % len(order)]] for j in range(NSLOTS)])
    # references
    refjobs = [(pi, s) for pi in range(len(pools)) for s in range(NSLOTS)]
    refs = pmap(lambda ps: child([{"call": pools[ps[0]][ps[1]], "inst": "fresh"}], "0"), refjobs)
    ref = {}
    for (pi, s), r in zip(refjobs, refs):
        if len(r["outs"]) != 1:
            raise MachineryError(f"reference run failed for pool {pi} slot {s}: {r}")
        ref[(pi, s)] = r["outs"][0]
    # ---------------------------------------------------------------- histories
    jobs = []
    for pi in range(len(pools)):
        special = pi < len(SPECIAL_POOLS)
        for s in range(NSLOTS):
            for seed in SEEDS[1:] if (special or ctx.thorough) else SEEDS[1:3]:
                jobs.append((pi, [{"slot": s, "inst": "fresh"}], seed))
        frac = 1 if (ctx.thorough and special) else (4 if special else (6 if ctx.thorough else 14))
        for hs in hists:
            if len(hs) < 2:
                continue
            if h(ctx.seed, pi, hs) % frac == 0:
                jobs.append((pi, hs, SEEDS[h(pi, hs) % len(SEEDS)]))
    outs = pmap(lambda j: child([{"call": pools[j[0]][st["slot"]], "inst": st["inst"]} for st in j[1]], j[2]), jobs)
    cases = []
    for (pi, hs, seed), o in zip(jobs, outs):
        cases.append({"hist": hs, "seed": seed, "outs": [zlib.crc32(x.encode()) % 1000000007 for x in o["outs"]],
                      "ref": [{"slot": s, "digest": zlib.crc32(ref[(pi, s)].encode()) % 1000000007} for s in range(NSLOTS)],
                      "meta": {"pool": pi, "raw": o}})
    verdicts = judge(ctx, "HistoryTrace", cases, "hist", per_shard=2500)
    ctx.count(len(cases), traces=len(cases))
    stats = {}
    for c in cases:
        v, k = verdicts[c["id"]][0], verdicts[c["id"]][1]
        stats[v] = stats.get(v, 0) + 1
        if len(c["hist"]) > 1 or c["seed"] != "0":
            ctx.nontrivial(json.dumps([c["meta"]["pool"] if c["meta"]["pool"] < len(SPECIAL_POOLS) else pools[c["meta"]["pool"]], c["hist"], c["seed"]]))
        if v != "OK":
            pi = c["meta"]["pool"]
            raw = c["meta"]["raw"]
            if v == "Crashed":
                ctx.violation("Crashed:" + pools[pi][c["hist"][0]["slot"]]["api"], f"the interpreter did not finish history {c['hist']} of pool {pools[pi]}: {str(raw)[:300]}", {"pool": pools[pi], "hist": c["hist"], "seed": c["seed"]})
                continue
            st = c["hist"][k - 1]
            call = pools[pi][st["slot"]]
            prev = [pools[pi][x["slot"]]["api"] + ("*" if x["inst"] == "reused" else "") for x in c["hist"][: k - 1]]
            got, want = raw["outs"][k - 1], ref[(pi, st["slot"])]
            d = next((j for j in range(min(len(got), len(want))) if got[j] != want[j]), min(len(got), len(want)))
            key = f"{v}:{call['api']}:{call.get('read') or 'base'}" + (f"->{call.get('write')}" if call.get("write") and call.get("write") != call.get("read") else "") + (":" + "%08x" % h(call.get("sql", ""), call.get("variant")))
            ctx.violation(key, f"{v}: step {k} of history {[x['slot'] for x in c['hist']]} ({'/'.join(prev) or 'nothing'} before) under PYTHONHASHSEED={c['seed']}: {call['api']}({call.get('sql', '')[:160]!r}, read={call.get('read')!r}) answers ...{got[max(0, d - 60): d + 100]!r} but alone ...{want[max(0, d - 60): d + 100]!r}",
                          {"pool": pools[pi], "hist": c["hist"], "seed": c["seed"]})
    ctx.notes.update({"verdicts": stats, "pools": len(pools), "histories_emitted": len(hists), "runs": len(cases)})
    ctx.sample({"pool": pools[0][0], "history": cases[-1]["hist"], "seed": cases[-1]["seed"]})
    ctx.cov["exhaustive"] = False


def replay(ctx, payload):
    p = payload["payload"]
    pool, hs, seed = p["pool"], p["hist"], p["seed"]
    o = child([{"call": pool[st["slot"]], "inst": st["inst"]} for st in hs], seed)
    refs = [child([{"call": pool[s], "inst": "fresh"}], "0")["outs"] for s in range(len(pool))]
    case = {"hist": hs, "seed": seed, "outs": [zlib.crc32(x.encode()) % 1000000007 for x in o["outs"]],
            "ref": [{"slot": s, "digest": zlib.crc32((refs[s] or [""])[0].encode()) % 1000000007} for s in range(len(pool))], "meta": {}}
    v = judge(ctx, "HistoryTrace", [case], "replay")[case["id"]]
    return None if v[0] == "OK" else f"{v[0]} at step {v[1]} of {hs} under seed {seed}"
