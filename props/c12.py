"""C12 — serialisation and copying reproduce the tree exactly (spec/Serde.tla, spec/SerdeTrace.tla)."""
from __future__ import annotations

import json
import os
import pickle
from concurrent.futures import ProcessPoolExecutor

from lib import tlc
from lib.tlc import MachineryError
from lib.tracejudge import judge

VARIANTS = ("load_dump", "json", "pickle", "copy")
FIELDS = ["cls", "val", "args", "type", "comments", "meta"]


def write_cfg(path, *, n, pop, maxops, sv="code", emit=False):
    lines = ["CONSTANTS", f"  N = {n}", f'  Pop = "{pop}"', f"  MaxOps = {maxops}", '  Variant = "code"', "  ExtraKeys = {}",
             f'  SerdeVariant = "{sv}"', "INIT Init", "NEXT Next", "VIEW View", "INVARIANT RoundTrip"]
    if emit:
        lines.append("ACTION_CONSTRAINT EmitD")
    with open(path, "w") as f:
        f.write("\n".join(lines) + "\n")


def project_full(tree):
    """DFS projection with exact scalar values (type-tagged), types, comments and meta of every node."""
    from sqlglot import exp

    Expr = exp.Expr if hasattr(exp, "Expr") else exp.Expression
    ids, order, stack = {}, [], [tree]
    while stack:
        n = stack.pop()
        if id(n) in ids:
            continue
        ids[id(n)] = len(order) + 1
        order.append(n)
        kids = []
        for v in n.args.values():
            if isinstance(v, Expr):
                kids.append(v)
            elif type(v) is list:
                kids.extend(x for x in v if isinstance(x, Expr))
        stack.extend(reversed(kids))
    nodes = []
    for n in order:
        slots, scal = {}, []
        for k in sorted(n.args):
            v = n.args[k]
            if isinstance(v, Expr):
                slots[k] = {"t": "node", "ids": [ids[id(v)]]}
            elif type(v) is list:
                if not v:
                    continue  # [] and absent are the same argument
                slots[k] = {"t": "list", "ids": [ids[id(x)] if isinstance(x, Expr) else 0 for x in v]}
                sc = [(i, type(x).__name__, x if not isinstance(x, exp.DType) else x.value) for i, x in enumerate(v) if not isinstance(x, Expr)]
                if sc:
                    scal.append((k, sc))
            elif v is not None:
                scal.append((k, type(v).__name__, v if not hasattr(v, "value") else v.value))
        t = n.type  # the public property (Cast derives it from `to`), as dump() reads it
        if t is n:
            t = None
        nodes.append(
            {
                "cls": type(n).__module__.replace("sqlglot.expressions.", "") + "." + type(n).__qualname__,
                "val": ascii(scal),
                "args": slots,
                "type": "" if t is None else ascii(_exact(t)),
                "comments": ascii(n.comments or []),
                "meta": ascii(sorted((n._meta or {}).items(), key=repr)),
            }
        )
    return nodes, {id(n) for n in order}


def _exact(x):
    """Exact structural digest of a type (or any small tree): every arg, including False/None-valued ones that == ignores."""
    if hasattr(x, "args") and hasattr(x, "parent"):
        return (type(x).__name__, tuple((k, _exact(x.args[k])) for k in sorted(x.args) if x.args[k] is not None and x.args[k] != []))
    if isinstance(x, list):
        return tuple(_exact(v) for v in x)
    if hasattr(x, "value") and not isinstance(x, (str, int, float, bool)):
        return ("enum", x.value)
    return (type(x).__name__, x)


def roundtrips(tree, dialects):
    """All four ways back, each compared with the original. Returns a list of cases (without ids)."""
    import sqlglot
    from sqlglot import serde

    a, aids = project_full(tree)
    base_sql = {}
    for d in dialects:
        try:
            base_sql[d] = tree.sql(dialect=d or None)
        except Exception as e:
            base_sql[d] = f"!{type(e).__name__}"
    out = []
    try:
        payload = serde.dump(tree)
        dump_err = None
    except Exception as e:
        payload, dump_err = None, f"{type(e).__name__}: {e}"
    jsonsafe = True
    jtext = None
    unsafe = ""
    if payload is not None:
        try:
            jtext = json.dumps(payload)
        except Exception:
            jsonsafe = False
            for pl in payload:
                for f, v in pl.items():
                    try:
                        json.dumps(v)
                    except Exception:
                        if f == "m" and isinstance(v, dict):
                            for mk, mv in v.items():
                                try:
                                    json.dumps(mv)
                                except Exception:
                                    unsafe = unsafe or f"meta[{mk}]={type(mv).__name__}"
                        unsafe = unsafe or f"{f}={type(v).__name__}"
    for v in VARIANTS:
        err = None
        back = None
        try:
            if v == "load_dump":
                back = serde.load(payload) if payload is not None else None
                err = dump_err
            elif v == "json":
                back = serde.load(json.loads(jtext)) if jtext is not None else None
                err = dump_err or (None if jsonsafe else f"dump is not JSON serialisable: {unsafe}")
                if not jsonsafe:
                    out.append({"variant": v, "fields": FIELDS, "a": a, "b": a, "eq": True, "sqlsame": True, "jsonsafe": False, "noshare": True, "err": err, "unsafe": unsafe})
                    continue
            elif v == "pickle":
                back = pickle.loads(pickle.dumps(tree))
            else:
                back = tree.copy()
        except Exception as e:
            err = f"{type(e).__name__}: {e}"
        if back is None:
            out.append({"variant": v, "fields": FIELDS, "a": a, "b": [], "eq": False, "sqlsame": False, "jsonsafe": True, "noshare": True, "err": err or "no result"})
            continue
        b, bids = project_full(back)
        sqlsame = True
        for d in dialects:
            try:
                s = back.sql(dialect=d or None)
            except Exception as e:
                s = f"!{type(e).__name__}"
            if s != base_sql[d]:
                sqlsame = False
        out.append({"variant": v, "fields": FIELDS, "a": a, "b": b, "eq": bool(back == tree), "sqlsame": sqlsame, "jsonsafe": True,
                    "noshare": not (aids & bids), "err": err})
    return out


def _corpus_chunk(arg):
    import sys

    sys.path.insert(0, os.environ.get("VERIF_REPO", "/repo"))
    import logging

    logging.getLogger("sqlglot").setLevel(logging.CRITICAL)
    import sqlglot
    from sqlglot.optimizer.annotate_types import annotate_types
    from sqlglot.optimizer.qualify import qualify
    from lib.guard import HardTimeout, limits, time_limit
    from lib.producers import SCHEMA

    limits()
    out = []
    for w in arg:
        try:
            with time_limit(20):
                tree = sqlglot.parse_one(w["sql"], dialect=w["dialect"] or None)
                if w["state"] == "annotated":
                    tree = annotate_types(tree, schema=SCHEMA, dialect=w["dialect"] or None)
                elif w["state"] == "qualified":
                    tree = annotate_types(qualify(tree, schema=SCHEMA, dialect=w["dialect"] or None, validate_qualify_columns=False), schema=SCHEMA, dialect=w["dialect"] or None)
                elif w["state"] == "commented":
                    for k, nd in enumerate(tree.walk()):
                        if k % 3 == 0:
                            # comments and meta are independent attributes: set them directly, also with
                            # comment text that *looks like* a meta directive and with meta that contradicts it
                            nd.comments = [f"c{k}", "sqlglot.meta k=v" if k % 2 else "x", "sqlglot.meta case_sensitive"]
                            nd.meta["n"] = k
                            if k % 2:
                                nd.meta["k"] = "other"
        except (Exception, HardTimeout):
            continue
        try:
            with time_limit(30):
                for c in roundtrips(tree, w["dialects"]):
                    c["meta"] = {"sql": w["sql"], "dialect": w["dialect"], "state": w["state"], "variant": c.pop("variant"), "err": c.pop("err"), "unsafe": c.pop("unsafe", ""), "kind": "corpus"}
                    out.append(c)
        except (Exception, HardTimeout) as e:
            out.append({"crash": f"{type(e).__name__}: {e}", "meta": w})
    return out


def _model_chunk(arg):
    import sys

    sys.path.insert(0, os.environ.get("VERIF_REPO", "/repo"))
    from lib.guard import HardTimeout, limits, time_limit
    from props.c08 import POPS, Replay, EMPTY_LIST_POPS
    from sqlglot import serde

    limits()
    recs, pop = arg
    out, drift = [], []
    init_cls, init_val = POPS[pop]
    for rec in recs:
        h = rec["h"]
        r = Replay(init_cls, init_val, pop in EMPTY_LIST_POPS)
        try:
            with time_limit(10):
                for a in h:
                    r.apply(a)
        except (Exception, HardTimeout):
            continue
        for ent in rec["d"]:
            root_s, rel = ent["r"], ent["rel"]
            root = r.objs.get(int(root_s))
            if root is None:
                continue
            # the dump relation (parent node, arg name, array flag, node) of the real dump vs the model's
            try:
                payload = serde.dump(root)
            except Exception as e:
                drift.append({"h": h, "err": f"dump raised {type(e).__name__}"})
                continue
            real = set()
            objs_in_order = []
            walk = []
            # re-derive which object each payload describes by replaying dump's own traversal order
            stack = [(root, None, None, False)]
            while stack:
                node, idx, k, arr = stack.pop()
                objs_in_order.append(node)
                if hasattr(node, "parent"):
                    for kk, vs in reversed(node.args.items()):
                        if type(vs) is list:
                            for v in reversed(vs):
                                stack.append((v, len(objs_in_order) - 1, kk, True))
                        elif vs is not None:
                            stack.append((vs, len(objs_in_order) - 1, kk, False))
            for p, ob in zip(payload, objs_in_order):
                if not hasattr(ob, "parent"):
                    continue
                par = 0 if "i" not in p else r.oid(objs_in_order[p["i"]])
                real.add((par, p.get("k", ""), bool(p.get("a", False)), r.oid(ob)))
            model = {(x[0], x[1], bool(x[2]), x[3]) for x in rel}
            if real != model:
                drift.append({"h": h, "root": int(root_s), "real": sorted(real), "model": sorted(model)})
            for c in roundtrips(root, [""]):
                c["meta"] = {"kind": "model", "pop": pop, "history": h, "root": int(root_s), "variant": c.pop("variant"), "err": c.pop("err"), "unsafe": c.pop("unsafe", "")}
                out.append(c)
    return out, drift


def _key(m, clause, field, cls):
    if clause == "JsonSafe":
        return f"JsonSafe:{m.get('unsafe') or '?'}"
    return f"{m['variant']}:{clause}" + (f":{field}:{cls}" if clause == "SameTree" else "")


def _judge(ctx, cases, label):
    crashes = [c for c in cases if "crash" in c]
    cases = [c for c in cases if "crash" not in c]
    if len(crashes) > max(5, len(cases) // 50):
        raise MachineryError(f"{len(crashes)} observer crashes, e.g. {crashes[0]}")
    verdicts = judge(ctx, "SerdeTrace", cases, label, per_shard=1500)
    ctx.count(len(cases), traces=len(cases))
    stats = {}
    for c in cases:
        clause, field, node = verdicts[c["id"]]
        m = c["meta"]
        stats[clause] = stats.get(clause, 0) + 1
        if len(c["a"]) >= 3:
            ctx.nontrivial((m.get("sql") or json.dumps(m.get("history")), m.get("dialect"), m.get("state"), m["variant"], m.get("root")))
        if clause != "OK":
            cls = c["a"][node - 1]["cls"] if node and node <= len(c["a"]) else ""
            what = f"{clause} fails for {m['variant']} of " + (f"{m['sql'][:140]!r} ({m['dialect'] or 'base'}, {m['state']})" if m["kind"] == "corpus" else f"model tree after {[a['op'] for a in m['history']]}")
            if clause == "SameTree":
                what += f": field {field} of node {node} ({cls}) differs"
                if node and node <= len(c["b"]):
                    what += f": {c['a'][node-1].get(field)!r} -> {c['b'][node-1].get(field)!r}"
            if m.get("err"):
                what += f" [{m['err']}]"
            ctx.violation(_key(m, clause, field, cls), what, {**m})
    ctx.notes.setdefault("judged", []).append({"label": label, "cases": len(cases), "verdicts": stats})
    return cases


def run(ctx):
    ctx.assumptions += [
        "absent and empty-list arguments are the same argument (dump drops both); None and [] comments, None and {} meta likewise",
        "SQL equality is checked in the base dialect, the tree's own dialect and three rotating dialects per tree",
    ]
    ctx.cov["rule"] = (
        "model trees: every store reachable in Ast.tla within the bound, each root dumped/loaded 4 ways; corpus trees: frozen identity/optimizer corpus "
        "x dialects x {plain, annotated, qualified+annotated, commented+meta}; a case = (tree, way back); distinct by (input, dialect, state, way); "
        "non-trivial = the tree has at least 3 nodes"
    )
    # 1. model: RoundTrip on every reachable store + negative controls
    for pop, n, ops in ([("bvlll", 5, 4), ("vel", 4, 4)] if ctx.thorough else [("bvlll", 5, 3)]):
        cfg = os.path.join(ctx.work, f"mc_{pop}.cfg")
        write_cfg(cfg, n=n, pop=pop, maxops=ops, emit=True)
        res = tlc.run("Serde", cfg, ctx.work, workers=16, timeout_s=3000, allow_violation=False)
        ctx.model(res, "Serde", cfg, f"RoundTrip on every store reachable within {ops} mutations (pop {pop}); dumps emitted")
        recs = res.printed if not ctx.thorough or pop != "bvlll" else res.printed[ctx.seed % 4 :: 4]
        if not ctx.thorough:
            recs = recs[ctx.seed % 3 :: 3]
        chunks = [recs[i::32] for i in range(32)]
        cases, drift = [], []
        with ProcessPoolExecutor(max_workers=16) as ex:
            for o, d in ex.map(_model_chunk, [(c, pop) for c in chunks if c]):
                cases += o
                drift += d
        for d in drift[:5]:
            ctx.drift(f"real dump() relation differs from Serde.tla after {[a['op'] for a in d['h']]}", d)
        ctx.notes.setdefault("model_replay", []).append({"pop": pop, "histories": len(recs), "cases": len(cases), "dump_relation_mismatches": len(drift)})
        _judge(ctx, cases, f"model_{pop}")
    for sv in ("no_array_flag_singleton", "parent_off_by_one", "children_reversed"):
        cfg = os.path.join(ctx.work, f"neg_{sv}.cfg")
        write_cfg(cfg, n=5, pop="bvlll", maxops=3, sv=sv)
        res = tlc.run("Serde", cfg, ctx.work, workers=8, timeout_s=600)
        if "RoundTrip" not in res.violated:
            raise MachineryError(f"negative control {sv} not detected")
        ctx.notes.setdefault("negative_controls", {})[sv] = res.violated
    # 2. corpus trees
    from lib import producers

    ident = producers.corpus_identity()
    opt = [o for o in producers.corpus_optimizer() if o["file"] in ("optimizer", "qualify_columns", "annotate_types", "merge_subqueries", "pushdown_projections", "simplify", "canonicalize")]
    dialects = producers.all_dialects()
    rng = ctx.rng
    work = []
    n_id = 2500 if ctx.thorough else 420
    n_opt = 1500 if ctx.thorough else 260
    for i in range(n_id):
        sql = rng.choice(ident)
        d = rng.choice(dialects) if i % 3 else ""
        work.append({"sql": sql, "dialect": d, "state": ("plain", "commented", "annotated")[i % 3], "dialects": sorted({"", d, *rng.sample(dialects, 3)})})
    probes = producers.corpus_probes()
    for i, pr in enumerate(probes):
        for st in ("plain", "annotated", "commented"):
            work.append({"sql": pr["sql"], "dialect": pr["dialect"], "state": st, "dialects": sorted({"", pr["dialect"], dialects[(i * 7) % len(dialects)]})})
    for i in range(n_opt):
        o = rng.choice(opt)
        d = o["dialect"] or ""
        work.append({"sql": o["sql"], "dialect": d, "state": ("qualified", "annotated")[i % 2], "dialects": sorted({"", d, *rng.sample(dialects, 2)})})
    chunks = [work[i::32] for i in range(32)]
    cases = []
    with ProcessPoolExecutor(max_workers=16) as ex:
        for o in ex.map(_corpus_chunk, [c for c in chunks if c]):
            cases += o
    cases = _judge(ctx, cases, "corpus")
    for c in cases[:: max(1, len(cases) // 2)][:2]:
        ctx.sample({"kind": "round trip judged by SerdeTrace", **{k: c["meta"][k] for k in ("sql", "dialect", "state", "variant")}, "nodes": len(c["a"])})
    ctx.cov["exhaustive"] = False


def replay(ctx, payload):
    p = payload["payload"]
    if p["kind"] == "corpus":
        cases = _corpus_chunk([{"sql": p["sql"], "dialect": p["dialect"], "state": p["state"], "dialects": sorted({"", p["dialect"], "duckdb", "mysql", "tsql"})}])
    else:
        cases, _ = _model_chunk(([{"h": p["history"], "d": [{"r": p["root"], "rel": []}]}], p["pop"]))
    cases = [c for c in cases if "crash" not in c and c["meta"]["variant"] == p["variant"]]
    before = len(ctx.violations)
    _judge(ctx, cases, "replay")
    for v in ctx.violations[before:]:
        if v["key"] == payload["key"]:
            return v["what"]
    return None
