"""C07 - formatting and generator options never change the meaning of the SQL.

  * Grammar.tla: the generator's option lattice (2718 canonical combinations) with Erased(o) = the tree attributes an option may
    change (comments / quoting flags / function-name case), plus the term algebra shared with C01.
  * the driver parses each text in a dialect, generates the default single-line SQL and the SQL under drawn option
    combinations (every option value alone, and hash-drawn combinations from TLC's enumeration), parses both back in that
    dialect and compares the trees modulo Erased(o); it also looks for the internal line-break sentinel and, under
    comments=False, for the text of the comments it injected after every token position.
  * RoundTrip.tla (JudgeOpt) names the failing clause: NoSentinel, NoCommentText, OptionReparses, SameMeaning.
"""
from __future__ import annotations

import json
import os
import zlib
from concurrent.futures import ProcessPoolExecutor

from lib import gram, producers, tlc
from lib.tlc import MachineryError
from lib.tracejudge import judge
from props.c01 import CFG, generate, subterms

DEFAULT = {"pretty": False, "pad": 2, "indent": 2, "width": 80, "leading_comma": False, "comments": True, "identify": "false", "normalize_functions": "upper"}
MARK = "zqcmt"


def kwargs(o):
    return {"pretty": o["pretty"], "pad": o["pad"], "indent": o["indent"], "max_text_width": o["width"], "leading_comma": o["leading_comma"], "comments": o["comments"],
            "identify": {"false": False, "true": True, "safe": "safe"}[o["identify"]], "normalize_functions": {"upper": "upper", "lower": "lower", "false": False}[o["normalize_functions"]]}


def erase(tree, erased):
    from sqlglot import exp

    t = tree.copy()
    for n in t.walk():
        if "comments" in erased:
            n.comments = None
        if "quoted" in erased and isinstance(n, exp.Identifier):
            n.set("quoted", False)
        if "function_case" in erased and isinstance(n, exp.Anonymous) and isinstance(n.this, str):
            n.set("this", n.this.upper())
    return t


def observe(sql, dialect, opts):
    import sqlglot
    from sqlglot import exp
    from sqlglot.errors import ParseError, TokenError, UnsupportedError

    try:
        t0 = sqlglot.parse_one(sql, read=dialect or None)
        if t0 is None or isinstance(t0, exp.Command):
            return None  # an opaque Command keeps the original text verbatim: nothing was parsed, so there is nothing to format
        s0 = t0.sql(dialect=dialect or None)
        td = sqlglot.parse_one(s0, read=dialect or None)
    except Exception:  # noqa: BLE001 - outside the domain (C01 / C05 look at these)
        return None
    out = []
    for o in opts:
        c = {"kind": "opt", "parsed": False, "same_tree": True, "sentinel": False, "comment_leak": False}
        m = {"sql": sql, "dialect": dialect, "o": o, "s0": s0}
        try:
            so = t0.sql(dialect=dialect or None, **kwargs(o))
        except UnsupportedError:
            continue
        except Exception as e:  # noqa: BLE001
            m["error"] = f"generate: {type(e).__name__}: {str(e)[:120]}"
            out.append({**c, "meta": m})
            continue
        m["so"] = so
        c["sentinel"] = "__SQLGLOT__LB__" in so
        c["comment_leak"] = (not o["comments"]) and MARK in so
        try:
            to = sqlglot.parse_one(so, read=dialect or None)
            c["parsed"] = to is not None
        except Exception as e:  # noqa: BLE001
            m["error"] = f"{type(e).__name__}: {str(e)[:120]}"
            out.append({**c, "meta": m})
            continue
        if c["parsed"]:
            er = set(o["erased"])
            a, b = erase(to, er), erase(td, er)
            c["same_tree"] = a == b
            if not c["same_tree"]:
                m["back"] = to.sql(dialect=dialect or None)[:300]
        out.append({**c, "meta": m})
    return out


def _chunk(work):
    import logging
    import sys

    sys.path.insert(0, os.environ.get("VERIF_REPO", "/repo"))
    logging.disable(logging.CRITICAL)
    from lib.guard import HardTimeout, time_limit

    out = []
    for w in work:
        try:
            with time_limit(30):
                r = observe(w["sql"], w["dialect"], w["opts"])
        except HardTimeout:
            r = None
        for c in r or []:
            c["meta"].update({k: w[k] for k in w if k not in ("sql", "dialect", "opts")})
            out.append(c)
    return out


def _chunk1(work):
    """One observation per work item (or None), order preserved."""
    out = []
    for w in work:
        r = _chunk([w])
        out.append(r[0] if r else None)
    return out


def singles(options):
    """One option away from the default, every value."""
    out = []
    for o in options:
        diff = [k for k in DEFAULT if o[k] != DEFAULT[k]]
        if len(diff) == 1 or (o["pretty"] and len([k for k in diff if k != "pretty"]) <= 1):
            out.append(o)
    return out


def optname(o):
    return "+".join(f"{k}={o[k]}" for k in DEFAULT if o[k] != DEFAULT[k]) or "default"


def run(ctx):
    ctx.assumptions += [
        "'the same tree up to comments / quoting flags / function-name case' = equality after erasing Erased(o) (Grammar.tla) from both trees",
        "the reference is the tree parsed back from the default single-line output of the same tree in the same dialect",
        "comments=False is checked on comments injected by the driver (a marker text after every token position)",
    ]
    ctx.cov["rule"] = (
        "texts: Grammar.tla statement forms, the precedence ladder, atoms (incl. a string literal with a line break), the identity corpus and the dialect probes, plus comment placements (a block comment after each of the "
        "first 40 tokens, a trailing line comment); x dialects (hash slice) x option combinations: every single option value, every pretty+one option, and hash-drawn combinations of TLC's 2718; "
        "distinct by (text, dialect, options); non-trivial = the options differ from the default"
    )
    cfg = os.path.join(ctx.work, "grammar_options.cfg")
    with open(cfg, "w") as f:
        f.write('CONSTANTS\n  Focus = "options"\n  K = 1\nINIT Init\nNEXT Next\nINVARIANT Emit\n')
    res = tlc.run("Grammar", cfg, ctx.work, workers=8, timeout_s=600, allow_violation=False)
    ctx.model(res, "Grammar", cfg, "the canonical option lattice with Erased(o)")
    options = sorted(({**p["t"]["o"], "erased": sorted(p["t"]["erased"])} for p in res.printed), key=lambda o: json.dumps(o, sort_keys=True))
    if len(options) != res.distinct or len(options) < 2000:
        raise MachineryError("option lattice incomplete")
    base_opts = singles(options)
    terms = generate(ctx, ["atoms", "ladder", "stmt_plain", "stmt", "ternary"], 12)
    dialects = producers.all_dialects()
    import sys

    sys.path.insert(0, os.environ.get("VERIF_REPO", "/repo"))
    import logging

    logging.disable(logging.CRITICAL)
    texts = [(s, {"src": "grammar", "t": t}) for s, t in terms.items()]
    texts += [(s, {"src": "identity"}) for s in producers.corpus_identity()]
    # fixed universe: the (text, dialect) pairs with h % 6 == 0; thorough runs all of it, quick a sixteenth of it chosen by the seed
    ndraw = 10 if ctx.thorough else 6
    work = []

    def add(s, d, meta):
        hh = gram.h(s, d, "o")
        drawn = [options[(hh + 7919 * j) % len(options)] for j in range(ndraw)]
        sel = [o for j, o in enumerate(base_opts) if ctx.thorough or (hh + j) % 3 == ctx.seed % 3]
        work.append({"sql": s, "dialect": d, "opts": sel + drawn, **meta})

    for s, meta in texts:
        for d in dialects:
            hv = gram.h(s, d, "c07")
            if hv % 6 == 0 and (ctx.thorough or (hv // 6) % 16 == ctx.seed % 16):
                add(s, d, meta)
                if gram.h(s, d, "cm") % 4 == 0:
                    for cv in gram.comment_variants(s, d, 40)[:: (1 if ctx.thorough else 3)]:
                        work.append({"sql": cv.replace("/* c", f"/* {MARK}").replace("-- tail", f"-- {MARK}tail"), "dialect": d, "src": "comment", "base": s, "t": meta.get("t"),
                                     "opts": [o for o in base_opts if (not o["comments"]) or o["pretty"]][:: (1 if ctx.thorough else 2)]})
    for r in producers.corpus_probes():
        add(r["sql"], r["dialect"], {"src": "probe"})
    chunks = [work[i::128] for i in range(128)]
    cases = []
    with ProcessPoolExecutor(max_workers=16) as ex:
        for o in ex.map(_chunk, [c for c in chunks if c]):
            cases.extend(o)
    if len(cases) < 5000:
        raise MachineryError(f"only {len(cases)} option runs")
    verdicts = judge(ctx, "RoundTrip", cases, "opt", per_shard=10000, strip=("meta",), cfg_text=CFG)
    ctx.count(len(cases), traces=len(cases))
    stats, bad = {}, []
    for c in cases:
        v = verdicts[c["id"]][0]
        stats[v] = stats.get(v, 0) + 1
        if optname(c["meta"]["o"]) != "default":
            ctx.nontrivial((c["meta"]["sql"], c["meta"]["dialect"], optname(c["meta"]["o"])))
        if v != "OK":
            bad.append((c, v))
    # responsible options: greedy reduction, one option at a time in a fixed order, the acceptor deciding each step
    def erased_of(oo):
        return sorted((set() if oo["comments"] else {"comments"}) | (set() if oo["identify"] == "false" else {"quoted"}) | (set() if oo["normalize_functions"] == "upper" else {"function_case"}))

    cur = {bi: {k: c["meta"]["o"][k] for k in DEFAULT} for bi, (c, v) in enumerate(bad[:1500])}
    for rnd, k in enumerate(DEFAULT):
        probes, owner = [], []
        for bi, oo in cur.items():
            if oo[k] != DEFAULT[k]:
                cand = {**oo, k: DEFAULT[k]}
                cand["erased"] = erased_of(cand)
                probes.append({"sql": bad[bi][0]["meta"]["sql"], "dialect": bad[bi][0]["meta"]["dialect"], "opts": [cand]})
                owner.append(bi)
        if not probes:
            continue
        pc, po = [], []
        chunks = [list(range(len(probes)))[i::32] for i in range(32)]
        with ProcessPoolExecutor(max_workers=16) as ex:
            for ids, outs in zip([c for c in chunks if c], ex.map(_chunk1, [[probes[i] for i in c] for c in chunks if c])):
                for i, o in zip(ids, outs):
                    if o is not None:
                        pc.append(o)
                        po.append(owner[i])
        if not pc:
            continue
        pv = judge(ctx, "RoundTrip", pc, f"optmin{rnd}", per_shard=10000, strip=("meta",), cfg_text=CFG)
        for c, bi in zip(pc, po):
            if pv[c["id"]][0] == bad[bi][1]:
                cur[bi] = {kk: c["meta"]["o"][kk] for kk in DEFAULT}
    blame = {bi: optname(oo) for bi, oo in cur.items()}
    examples = {}
    for bi, (c, v) in enumerate(bad):
        m = c["meta"]
        name = blame.get(bi) or optname(m["o"])
        name = "+".join(p.split("=")[0] if p.split("=")[0] in ("pad", "indent", "width") else p for p in name.split("+"))
        t = m.get("t")
        site = (("stmt:" if t["k"] == "stmt" else "") + (t.get("f") or t.get("v"))) if t else f"{m['src']}:{'%08x' % zlib.crc32((m.get('base') or m['sql']).encode())}"
        if m["src"] == "comment":
            site = "comment@" + site
        what = f"{v} in {m['dialect'] or 'base'} under {optname(m['o'])} for {m['sql']!r}: output {m.get('so')!r}, default {m.get('s0')!r} {m.get('error', '')}"
        examples.setdefault(f"{v}:{m['dialect'] or 'base'}:{name}:{site}", what[:400])
        ctx.violation(f"{v}:{m['dialect'] or 'base'}:{name}:{site}", what, {"sql": m["sql"], "dialect": m["dialect"], "o": m["o"]})
    os.makedirs("/tmp/verif_keys", exist_ok=True)  # triage aid only; nothing registered reads it
    with open(f"/tmp/verif_keys/{ctx.pid}_{ctx.tier}.json", "w") as f:
        json.dump(examples, f, indent=0, sort_keys=True)
    ctx.notes.update({"verdicts": stats, "option_combinations": len(options), "runs": len(cases), "texts": len(texts)})
    for c in cases[:: max(1, len(cases) // 3)][:3]:
        ctx.sample({"sql": c["meta"]["sql"], "dialect": c["meta"]["dialect"], "options": optname(c["meta"]["o"]), "output": c["meta"].get("so")})
    ctx.cov["exhaustive"] = False


def replay(ctx, payload):
    p = payload["payload"]
    cs = _chunk([{"sql": p["sql"], "dialect": p["dialect"], "opts": [p["o"]]}])
    if not cs:
        return None
    v = judge(ctx, "RoundTrip", cs, "replay", cfg_text=CFG)[cs[0]["id"]][0]
    return None if v == "OK" else f"{v} in {p['dialect'] or 'base'} under {optname(p['o'])} for {p['sql']!r}"
