"""C20 — an AST diff accounts for every node once and is empty only for equal trees
(spec/Diff.tla bookkeeping model, spec/DiffTrace.tla acceptor for recorded runs of sqlglot.diff)."""
from __future__ import annotations

import json
import os
import random
from concurrent.futures import ProcessPoolExecutor

from lib import tlc
from lib.tlc import MachineryError
from lib.tracejudge import judge

EDITS = ["rename_ident", "rename_alias_col", "rename_cte", "literal", "insert_proj", "delete_proj", "move_proj", "wrap_func", "add_pred", "drop_pred",
         "swap_join", "rename_table", "none", "two_edits", "independent", "copy"]


def write_cfg(path, *, ns, nt, variant="code"):
    with open(path, "w") as f:
        f.write(f'CONSTANTS\n  NS = {ns}\n  NT = {nt}\n  Types = {{"A", "B"}}\n  Variant = "{variant}"\nINIT Init\nNEXT Next\nINVARIANT Bijection\nINVARIANT Partition\nINVARIANT Accounting\n')


def _edit(tree, kind, rng):
    """returns an edited copy (or None when the edit does not apply)"""
    from sqlglot import exp

    t = tree.copy()
    if kind == "none" or kind == "copy":
        return t
    if kind == "rename_ident":
        ids = [n for n in t.find_all(exp.Identifier) if isinstance(n.this, str) and n.this]
        if not ids:
            return None
        n = rng.choice(ids)
        n.set("this", n.this[:-1] + ("g" if n.this[-1] != "g" else "h"))
        return t
    if kind == "rename_alias_col":
        tas = [n for n in t.find_all(exp.TableAlias) if n.args.get("columns")]
        if not tas:
            return None
        c = rng.choice(tas).args["columns"][0]
        c.set("this", c.name + "x")
        return t
    if kind == "rename_cte":
        ctes = list(t.find_all(exp.CTE))
        if not ctes:
            return None
        a = rng.choice(ctes).args["alias"].this
        a.set("this", a.name[:-1] + ("g" if a.name[-1:] != "g" else "h") if a.name else "g")
        return t
    if kind == "rename_table":
        tabs = list(t.find_all(exp.Table))
        if not tabs:
            return None
        tb = rng.choice(tabs)
        tb.this.set("this", tb.name + "2") if isinstance(tb.this, exp.Identifier) else None
        return t
    if kind == "literal":
        lits = list(t.find_all(exp.Literal))
        if not lits:
            return None
        l = rng.choice(lits)
        l.set("this", "7" if not l.is_string else l.this + "z")
        return t
    sel = t if isinstance(t, exp.Select) else t.find(exp.Select)
    if sel is None:
        return None
    if kind == "insert_proj":
        sel.select("zz + 1 AS zz", copy=False)
        return t
    if kind == "delete_proj":
        if len(sel.expressions) < 2:
            return None
        sel.expressions[rng.randrange(len(sel.expressions))].pop()
        return t
    if kind == "move_proj":
        if len(sel.expressions) < 2:
            return None
        e = sel.expressions[0].pop()
        sel.append("expressions", e)
        return t
    if kind == "wrap_func":
        cols = [c for c in sel.find_all(exp.Column) if not isinstance(c.parent, exp.Dot)]
        if not cols:
            return None
        c = rng.choice(cols)
        c.replace(exp.func("COALESCE", c.copy(), 0))
        return t
    if kind == "add_pred":
        sel.where("zz = 1", copy=False)
        return t
    if kind == "drop_pred":
        if not sel.args.get("where"):
            return None
        sel.args["where"].pop()
        return t
    if kind == "swap_join":
        joins = sel.args.get("joins") or []
        if len(joins) < 2:
            return None
        j = joins[0].pop()
        sel.append("joins", j)
        return t
    return None


def observe(source, target, delta_only, matchings_mode, dialect, rng):
    from sqlglot import diff, exp
    from sqlglot.diff import Insert, Keep, Move, Remove, Update
    from lib.astproj import project_tree
    from props.c09 import _raw_snapshot

    def nonident(tree):
        return [n for n in tree.walk() if not isinstance(n, exp.Identifier)]

    snodes, tnodes = nonident(source), nonident(target)
    sid = {id(n): i + 1 for i, n in enumerate(snodes)}
    tid = {id(n): i + 1 for i, n in enumerate(tnodes)}
    matchings = None
    pre = set()
    if matchings_mode == "roots":
        if type(source) is type(target):
            matchings = [(source, target)]
    elif matchings_mode == "leaf":
        sl = [n for n in snodes if isinstance(n, (exp.Column, exp.Table))]
        tl = [n for n in tnodes if isinstance(n, (exp.Column, exp.Table))]
        # corresponding leaves (same position in both walks): pinning an unnatural cross pair would legitimately force Moves
        pairs = [(a, b) for a, b in zip(sl, tl) if type(a) is type(b) and a == b] if len(sl) == len(tl) else []
        if pairs:
            matchings = [pairs[rng.randrange(len(pairs))]]
    elif matchings_mode == "cross":
        # a valid but unnatural pin: a leaf matched with an *equal leaf at another position*
        sl = [n for n in snodes if isinstance(n, (exp.Column, exp.Table))]
        tl = [n for n in tnodes if isinstance(n, (exp.Column, exp.Table))]
        pairs = [(a, b) for i, a in enumerate(sl) for j, b in enumerate(tl) if i != j and type(a) is type(b) and a == b]
        if pairs:
            matchings = [pairs[rng.randrange(len(pairs))]]
    if matchings:
        pre = {(id(a), id(b)) for a, b in matchings}
    pre_s, _ = _raw_snapshot(source)
    pre_t, _ = _raw_snapshot(target)
    kwargs = {"delta_only": delta_only}
    if matchings:
        kwargs["matchings"] = matchings
    if dialect:
        kwargs["dialect"] = dialect
    edits = diff(source, target, **kwargs)
    post_s, _ = _raw_snapshot(source)
    post_t, _ = _raw_snapshot(target)
    strip = lambda ns: [{k: v for k, v in n.items() if k not in ("oid", "cid", "mid")} for n in ns]
    script, prem = [], []
    for e in edits:
        if isinstance(e, Remove):
            script.append(["remove", sid.get(id(e.expression), -1), 0])
            prem.append(False)
        elif isinstance(e, Insert):
            script.append(["insert", 0, tid.get(id(e.expression), -1)])
            prem.append(False)
        else:
            kind = {Keep: "keep", Update: "update", Move: "move"}[type(e)]
            script.append([kind, sid.get(id(e.source), -1), tid.get(id(e.target), -1)])
            prem.append((id(e.source), id(e.target)) in pre)
    sproj, _ = project_tree(source)
    tproj, _ = project_tree(target)
    keep = lambda ns: [{"cls": n["cls"], "val": n["val"], "args": {k: a["ids"] for k, a in n["args"].items()}} for n in ns]
    return {"stypes": [type(n).__name__ for n in snodes], "ttypes": [type(n).__name__ for n in tnodes], "script": script, "prematched": prem,
            "sproj": keep(sproj), "tproj": keep(tproj), "delta_only": delta_only, "check_empty": matchings_mode != "cross",
            "frame_src": strip(pre_s) == strip(post_s) and [n["oid"] for n in pre_s] == [n["oid"] for n in post_s],
            "frame_tgt": strip(pre_t) == strip(post_t) and [n["oid"] for n in pre_t] == [n["oid"] for n in post_t]}


def _chunk(arg):
    import sys

    sys.path.insert(0, os.environ.get("VERIF_REPO", "/repo"))
    import logging

    logging.getLogger("sqlglot").setLevel(logging.CRITICAL)
    import sqlglot
    from lib.guard import HardTimeout, limits, time_limit

    limits()
    out = []
    for w in arg:
        rng = random.Random(w["r"])
        try:
            src = sqlglot.parse_one(w["sql"], dialect=w["dialect"] or None)
            if w["edit"] == "independent":
                tgt = sqlglot.parse_one(w["other"], dialect=w["other_dialect"] or None)
            elif w["edit"] == "two_edits":
                a = _edit(src, w["e1"], rng)
                tgt = _edit(a, w["e2"], rng) if a is not None else None
            else:
                tgt = _edit(src, w["edit"], rng)
            if tgt is None or len(list(src.walk())) > 160 or len(list(tgt.walk())) > 160:
                continue
            if w.get("decorate"):
                for k, nd in enumerate(src.walk()):
                    if k % 4 == 0:
                        nd.add_comments([f"c{k}"])
            if w.get("hash_first"):
                hash(src)
                hash(tgt)
            with time_limit(60):
                c = observe(src, tgt, w["delta_only"], w["matchings"], w.get("diff_dialect"), rng)
        except HardTimeout:
            continue
        except Exception as e:
            out.append({"crash": f"{type(e).__name__}: {str(e)[:120]}", "meta": w})
            continue
        c["meta"] = w
        out.append(c)
    return out


def run(ctx):
    ctx.assumptions += [
        "tree equality is decided by TLC on the structural projections of both trees (the normalisations of Expression.__hash__: absent/None/False/[] args and letter case of non-raw strings)",
        "caller-supplied matchings are valid (same-type pairs; root pair or one equal Column/Table leaf pair); pairs the caller supplied are exempt from the same-type clause",
        "the Keep/Move order is not judged (documented exception)",
    ]
    ctx.cov["rule"] = (
        "pairs (source, target): target = source edited by one or two edits from a fixed catalogue (identifier/alias-column/CTE/table renames, literal change, insert/delete/move of "
        "projections and joins, wrapping in a function, adding/dropping predicates, none, copy) or an independent tree, over the frozen corpus and dialect probes; x delta_only x "
        "{no matchings, root pair, leaf pair}; TLC checks accounting, same-type pairing, empty-delta-iff-equal and the frame of both inputs; distinct by (source, edit, options); "
        "non-trivial = the two trees differ"
    )
    cfg = os.path.join(ctx.work, "diff.cfg")
    write_cfg(cfg, ns=3, nt=3)
    res = tlc.run("Diff", cfg, ctx.work, workers=8, timeout_s=900, allow_violation=False)
    ctx.model(res, "Diff", cfg, "pools / matching / script bookkeeping: Bijection, Partition, Accounting")
    for v in ("no_pool_check", "insert_from_source"):
        cfg = os.path.join(ctx.work, f"neg_{v}.cfg")
        write_cfg(cfg, ns=3, nt=3, variant=v)
        r = tlc.run("Diff", cfg, ctx.work, workers=4, timeout_s=300)
        if not r.violated:
            raise MachineryError(f"negative control {v} not detected")
        ctx.notes.setdefault("negative_controls", {})[v] = r.violated
    from lib import producers

    ident = producers.corpus_identity()
    opt = [o for o in producers.corpus_optimizer() if o["file"] in ("optimizer", "merge_subqueries", "qualify_columns", "pushdown_projections", "eliminate_subqueries", "unnest_subqueries")]
    probes = producers.corpus_probes()
    rng = random.Random(20)   # the unchanged tree has a listed finding: the explored space is fixed, VERIF_SEED selects a third of it
    n = 9000
    work = []
    similar = ["SELECT a, a, a2 FROM t WHERE a = a2", "SELECT price, price, price2 FROM orders AS o JOIN orders AS o2 ON o.id = o2.id",
               "SELECT alpha, alphb, alpha FROM t UNION ALL SELECT alpha, alphb, alpha FROM t", "SELECT t.a, u.a, t.a + u.a FROM t, u, t AS t2 WHERE t.a = u.a"]
    for i in range(n):
        r = i % 10
        if i % 23 == 0:
            sql, d = similar[(i // 23) % len(similar)], ""
        elif r < 5:
            o = opt[(i * 31) % len(opt)]
            sql, d = o["sql"], o["dialect"] or ""
        elif r < 8:
            sql, d = ident[(i * 17) % len(ident)], ""
        else:
            pr = probes[(i * 7) % len(probes)]
            sql, d = pr["sql"], pr["dialect"]
        o2 = opt[(i * 13 + 5) % len(opt)]
        edit = EDITS[i % len(EDITS)]
        work.append({"sql": sql, "dialect": d, "edit": edit, "e1": EDITS[(i // 3) % 12], "e2": EDITS[(i // 5) % 12], "other": o2["sql"], "other_dialect": o2["dialect"] or "",
                     "delta_only": (i // 2) % 2 == 0, "matchings": ("none", "cross", "roots", "leaf", "none", "cross")[(i // 4) % 6], "diff_dialect": d if i % 3 == 0 else None,
                     "decorate": i % 5 == 0, "hash_first": i % 7 == 0, "r": rng.random()})
    if not ctx.thorough:
        work = work[ctx.seed % 3 :: 3]
    chunks = [work[i::64] for i in range(64)]
    cases, crashes = [], []
    with ProcessPoolExecutor(max_workers=16) as ex:
        for o in ex.map(_chunk, [c for c in chunks if c]):
            for c in o:
                (crashes if "crash" in c else cases).append(c)
    if len(crashes) > max(10, len(cases) // 20):
        raise MachineryError(f"{len(crashes)} observer crashes, e.g. {crashes[0]}")
    verdicts = judge(ctx, "DiffTrace", cases, "diff", per_shard=400)
    ctx.count(len(cases), traces=len(cases))
    stats, edits = {}, {}
    for c in cases:
        clause = verdicts[c["id"]][0]
        m = c["meta"]
        stats[clause] = stats.get(clause, 0) + 1
        edits[m["edit"]] = edits.get(m["edit"], 0) + 1
        if c["sproj"] != c["tproj"]:
            ctx.nontrivial((m["sql"], m["dialect"], m["edit"], m["e1"], m["e2"], m["delta_only"], m["matchings"]))
        if clause != "OK":
            ed = m["edit"] if m["edit"] != "two_edits" else f"{m['e1']}+{m['e2']}"
            shape = "equal_trees" if c["sproj"] == c["tproj"] else ed
            ctx.violation(f"{clause}:{shape}:{m['matchings']}",
                          f"{clause} fails for diff(source, {ed}(source)) on {m['sql'][:140]!r} ({m['dialect'] or 'base'}; delta_only={m['delta_only']}, matchings={m['matchings']}): script {c['script'][:8]}",
                          {k: m[k] for k in m})
    ctx.notes.update({"pairs": len(cases), "verdicts": stats, "by_edit": edits, "observer_crashes": len(crashes)})
    for c in [c for c in cases if c["sproj"] != c["tproj"]][:: max(1, len(cases) // 3)][:2]:
        ctx.sample({"sql": c["meta"]["sql"][:160], "edit": c["meta"]["edit"], "delta_only": c["meta"]["delta_only"], "script": c["script"][:6]})
    ctx.cov["exhaustive"] = False


def replay(ctx, payload):
    p = payload["payload"]
    cases = [c for c in _chunk([p]) if "crash" not in c]
    verdicts = judge(ctx, "DiffTrace", cases, "replay")
    for c in cases:
        if verdicts[c["id"]][0] != "OK":
            return f"{verdicts[c['id']][0]} fails for diff on {p['sql'][:100]!r} (edit {p['edit']})"
    return None
