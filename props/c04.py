"""C04 — quoting of strings, identifiers and comments is lossless and inescapable
(spec/Quote.tla model instantiated with each dialect's configuration from the working tree; spec/QuoteTrace.tla acceptor)."""
from __future__ import annotations

import itertools
import json
import os
from concurrent.futures import ProcessPoolExecutor

from lib import tlc
from lib.tlc import MachineryError
from lib.tracejudge import judge

MODEL_CLASSES = ("q", "o", "b", "n", "L", "a")
EXTRA = ["\r", "\x00", "*", "/", "-", "$", "[", "]", "`", "%", "\t", "é", "{", "}", ";", "\\n"]
SENTINEL = "__SQLGLOT__LB__"


def dialect_config(d):
    """the constants of Quote.tla for dialect object d (string literals)"""
    tk = d.tokenizer_class
    q = d.QUOTE_END
    esc = set(tk._STRING_ESCAPES)
    tokesc = set()
    if q in esc:
        tokesc.add("q")
    if "\\" in esc:
        tokesc.add("b")
    g0 = tk.STRING_ESCAPES[0]
    genesc = "q" if g0 == q else "b" if g0 == "\\" else "o"
    return {"TokEsc": sorted(tokesc), "GenEsc": genesc, "GenSeq": bool(d.STRINGS_SUPPORT_ESCAPED_SEQUENCES), "TokSeq": bool(d.UNESCAPED_SEQUENCES) and "\\" in esc,
            "Follow": bool(tk._ESCAPE_FOLLOW_CHARS)}


def write_cfg(path, cfg, maxlen, emit=False):
    with open(path, "w") as f:
        f.write("CONSTANTS\n"
                f"  MaxLen = {maxlen}\n  TokEsc = {{{', '.join(json.dumps(x) for x in cfg['TokEsc'])}}}\n  GenEsc = \"{cfg['GenEsc']}\"\n"
                f"  GenSeq = {'TRUE' if cfg['GenSeq'] else 'FALSE'}\n  TokSeq = {'TRUE' if cfg['TokSeq'] else 'FALSE'}\n  Follow = {'TRUE' if cfg['Follow'] else 'FALSE'}\n"
                "INIT Init\nNEXT Next\n" + ("INVARIANT Emit\n" if emit else "INVARIANT Inv\n"))


def render_value(classes, d):
    q = d.QUOTE_END if len(d.QUOTE_END) == 1 else "'"
    o = '"' if q == "'" else "'"
    return "".join({"q": q, "o": o, "b": "\\", "n": "n", "L": "\n", "a": "a"}[c] for c in classes)


def observe(kind, v, dialect, d, opts):
    """builder API -> SQL -> the dialect's own tokenizer"""
    from sqlglot import exp
    from sqlglot.errors import SqlglotError
    from sqlglot.tokens import TokenType

    case = {"kind": kind, "v": [ord(c) for c in v], "toks": [], "base": [], "expect": [], "pos": 2, "tokenized": True, "sql": ""}
    try:
        if kind == "string":
            tree = exp.select(exp.alias_(exp.Literal.string(v), "x", quoted=False))
            case["expect"] = ["SELECT", "STRING", "ALIAS", "VAR"]
        elif kind == "convert":
            tree = exp.select(exp.alias_(exp.convert(v), "x", quoted=False))
            case["expect"] = ["SELECT", "STRING", "ALIAS", "VAR"]
        elif kind == "identifier":
            tree = exp.select(exp.column(exp.to_identifier(v, quoted=True))).from_("t")
            case["expect"] = ["SELECT", "IDENTIFIER", "FROM", "VAR"]
        elif kind == "after_raw":
            # one statement holding a raw / byte string node *before* the plain literal: per-call generator state must not leak
            first = exp.RawString(this="k") if len(v) % 2 else exp.ByteString(this="k")
            tree = exp.select(first, exp.Literal.string(v))
            ref = exp.select(first.copy(), exp.Literal.string("a")).sql(dialect=d, **opts)
            case["expect"] = [t.token_type.name for t in d.tokenize(ref)]
            case["pos"] = len(case["expect"])
            if not case["expect"] or case["expect"][-1] != "STRING":
                return None
        else:  # comment
            col = exp.column("a")
            col.add_comments([v])
            tree = exp.select(col).from_("t")
            base_sql = exp.select(exp.column("a")).from_("t").sql(dialect=d, **opts)
            case["base"] = [{"k": t.token_type.name, "t": [ord(c) for c in t.text]} for t in d.tokenize(base_sql)]
        sql = tree.sql(dialect=d, **opts)
    except SqlglotError as e:
        return None
    case["sql"] = sql
    if opts.get("identify") and case["expect"] and kind != "after_raw":
        case["expect"] = case["expect"][:-1] + ["IDENTIFIER"]  # identify=True also quotes the alias / table name
    try:
        toks = d.tokenize(sql)
    except SqlglotError:
        case["tokenized"] = False
        toks = []
    case["toks"] = [{"k": t.token_type.name, "t": [ord(c) for c in t.text]} for t in toks]
    return case


def _chunk(arg):
    import sys

    sys.path.insert(0, os.environ.get("VERIF_REPO", "/repo"))
    from lib.guard import HardTimeout, limits, time_limit
    from sqlglot.dialects.dialect import Dialect

    limits()
    out = []
    dc = {}
    for kind, v, dialect, optname in arg:
        d = dc.get(dialect)
        if d is None:
            d = dc[dialect] = Dialect.get_or_raise(dialect or None)
        opts = {"plain": {}, "pretty": {"pretty": True}, "identify": {"identify": True}, "pretty_identify": {"pretty": True, "identify": True}}[optname]
        try:
            with time_limit(10):
                c = observe(kind, v, dialect, d, opts)
        except (Exception, HardTimeout) as e:
            out.append({"crash": f"{type(e).__name__}: {e}", "meta": {"kind": kind, "v": v, "dialect": dialect, "opts": optname}})
            continue
        if c is None:
            continue
        c["meta"] = {"kind": kind, "v": v, "dialect": dialect, "opts": optname, "sql": c.pop("sql")}
        out.append(c)
    return out


def _fails(kind, v, dialect, optname):
    """search heuristic for minimisation (Python-side recheck of the same clause)"""
    from sqlglot.dialects.dialect import Dialect

    d = Dialect.get_or_raise(dialect or None)
    opts = {"plain": {}, "pretty": {"pretty": True}, "identify": {"identify": True}, "pretty_identify": {"pretty": True, "identify": True}}[optname]
    try:
        c = observe(kind, v, dialect, d, opts)
    except Exception:
        return True
    if c is None:
        return False
    if kind == "comment":
        return not c["tokenized"] or [(t["k"], t["t"]) for t in c["toks"]] != [(t["k"], t["t"]) for t in c["base"]]
    return not c["tokenized"] or [t["k"] for t in c["toks"]] != c["expect"] or c["toks"][c["pos"] - 1]["t"] != c["v"]


def _charname(ch):
    return {"\\": "backslash", "'": "squote", '"': "dquote", "`": "backtick", "\n": "LF", "\r": "CR", "\x00": "NUL", "\t": "TAB"}.get(ch, ch if ch.isprintable() and not ch.isspace() else f"U+{ord(ch):04X}")


def _minimal(kind, v, dialect, optname):
    if SENTINEL in v:
        return "sentinel"
    cur = v
    changed = True
    while changed and len(cur) > 1:
        changed = False
        for i in range(len(cur)):
            cand = cur[:i] + cur[i + 1 :]
            if cand and _fails(kind, cand, dialect, optname):
                cur = cand
                changed = True
                break
        if not changed and len(cur) > 2:
            # e.g. an odd run of escape characters: dropping one of them makes the value pass, dropping two does not
            for i in range(len(cur)):
                for j in range(i + 1, len(cur)):
                    cand = cur[:i] + cur[i + 1 : j] + cur[j + 1 :]
                    if cand and _fails(kind, cand, dialect, optname):
                        cur = cand
                        changed = True
                        break
                if changed:
                    break
    return "+".join(_charname(c) for c in cur)


def run(ctx):
    ctx.assumptions += [
        "single-character string delimiters (every registered dialect); the value reaches the SQL through exp.Literal.string / exp.convert / exp.to_identifier(quoted=True) / add_comments",
        "the statement shapes are SELECT <literal> AS x, SELECT <identifier> FROM t, SELECT a /* comment */ FROM t",
    ]
    ctx.cov["rule"] = (
        "model: Quote.tla RoundTrip for every value of length <= 4 over 6 character classes, instantiated with each distinct dialect configuration exported from the working tree; "
        "conformance: every value up to the length bound over the concrete alphabet (delimiters of the dialect, the other quote, backslash, LF, CR, NUL, comment markers, $, brackets, "
        "backtick, %, tab, a non-ASCII letter, the line-break sentinel) x dialects x {string, convert, identifier, comment} x {plain, pretty, identify}; the generated SQL is tokenized by the "
        "dialect's tokenizer and judged by TLC (QuoteTrace); distinct by (kind, value, dialect, options); non-trivial = the value contains a delimiter, a backslash or a line break"
    )
    sys_path_ok = True
    from sqlglot.dialects.dialect import Dialect
    from lib import producers

    dialects = producers.all_dialects()
    configs = {}
    for dn in dialects:
        d = Dialect.get_or_raise(dn or None)
        cfg = dialect_config(d)
        configs.setdefault(json.dumps(cfg, sort_keys=True), []).append(dn or "base")
    ctx.notes["configurations"] = {k: v for k, v in configs.items()}
    model_fail = {}
    for k, (cj, dns) in enumerate(sorted(configs.items())):
        cfg = json.loads(cj)
        path = os.path.join(ctx.work, f"quote_{k}.cfg")
        write_cfg(path, cfg, 4 if ctx.thorough else 3)
        res = tlc.run("Quote", path, ctx.work, workers=8, timeout_s=600)
        ctx.model(res, "Quote", path, f"RoundTrip for the configuration of {', '.join(dns[:6])}{'...' if len(dns) > 6 else ''}")
        if res.violated:
            model_fail[", ".join(dns)] = res.violated
    ctx.notes["model_roundtrip_fails_for"] = model_fail
    # negative control: a tokenizer that honours backslash escapes the generator does not produce
    path = os.path.join(ctx.work, "quote_neg.cfg")
    write_cfg(path, {"TokEsc": ["b", "q"], "GenEsc": "q", "GenSeq": False, "TokSeq": True, "Follow": False}, 3)
    res = tlc.run("Quote", path, ctx.work, workers=4, timeout_s=300)
    if not res.violated:
        raise MachineryError("negative control (escape mismatch) not detected by Quote.tla")
    # conformance values: model classes rendered per dialect + the wider concrete alphabet
    maxlen = 3
    work = []
    rot = ctx.seed % 4
    for di, dn in enumerate(dialects):
        d = Dialect.get_or_raise(dn or None)
        q = d.QUOTE_END if len(d.QUOTE_END) == 1 else "'"
        o = '"' if q == "'" else "'"
        iq = d.IDENTIFIER_END if len(d.IDENTIFIER_END) == 1 else '"'
        alpha = sorted(set([q, o, iq, "\\", "n", "\n", "a"] + EXTRA))
        full = ctx.thorough or di % 4 == rot
        L = maxlen if full else 2
        vals = [""]
        for n in range(1, L + 1):
            if n == 3 and not ctx.thorough:
                core = [q, o, iq, "\\", "n", "\n", "a", "*", "/", "-", "$", "]", "\r"]
                vals += ["".join(p) for p in itertools.product(core, repeat=3)]
            else:
                vals += ["".join(p) for p in itertools.product(alpha, repeat=n)]
        if ctx.thorough:
            vals += ["".join(p) for p in itertools.product([q, o, "\\", "n", "\n", "a"], repeat=4)]
        vals += [SENTINEL, "a" + SENTINEL + "b", "x */ y /* z", "/*/", "*/*", "--", "a\\", "\\" + q, q + q, q + " OR 1=1 --", "\\" + q + " OR 1=1 --", "$$", "$a$", "]]", iq + iq]
        vals = sorted(set(vals))
        for vi, v in enumerate(vals):
            for kind in ("string", "identifier", "comment", "convert", "after_raw"):
                if kind == "identifier" and not v:
                    continue
                if kind == "comment" and not v:
                    continue
                if kind == "convert" and vi % 5:
                    continue
                if kind == "after_raw" and (vi % 3 or not v):
                    continue
                optname = ("plain", "pretty", "identify", "pretty_identify")[(vi + len(kind)) % 4] if kind != "string" else ("plain", "pretty")[vi % 2]
                work.append((kind, v, dn, optname))
    chunks = [work[i::64] for i in range(64)]
    cases, crashes = [], []
    with ProcessPoolExecutor(max_workers=16) as ex:
        for o_ in ex.map(_chunk, [c for c in chunks if c]):
            for c in o_:
                (crashes if "crash" in c else cases).append(c)
    if len(crashes) > len(cases) // 100:
        raise MachineryError(f"{len(crashes)} observer crashes, e.g. {crashes[0]}")
    verdicts = judge(ctx, "QuoteTrace", cases, "quote", per_shard=6000)
    ctx.count(len(cases), traces=len(cases))
    stats = {}
    mincache = {}
    for c in cases:
        clause = verdicts[c["id"]][0]
        m = c["meta"]
        stats[clause] = stats.get(clause, 0) + 1
        if any(ch in m["v"] for ch in ("'", '"', "`", "\\", "\n", "\r")):
            ctx.nontrivial((m["kind"], m["v"], m["dialect"], m["opts"]))
        if clause != "OK":
            mk = (m["kind"], m["dialect"], m["opts"], "".join(sorted(set(m["v"]))))
            if mk not in mincache:
                mincache[mk] = _minimal(m["kind"], m["v"], m["dialect"], m["opts"]) if len(mincache) < 60000 else "+".join(_charname(ch) for ch in sorted(set(m["v"])))
            key = "pretty:sentinel" if mincache[mk] == "sentinel" else f"{m['kind']}:{m['dialect'] or 'base'}:{mincache[mk]}"
            ctx.violation(key,
                          f"{clause}: {m['kind']} value {m['v']!r} generated for {m['dialect'] or 'base'} ({m['opts']}) as {m['sql']!r} lexes back as {[(t['k'], ''.join(map(chr, t['t']))) for t in c['toks']][:6]}",
                          {k: m[k] for k in ("kind", "v", "dialect", "opts")})
    ctx.notes.update({"cases": len(cases), "verdicts": stats, "observer_crashes": len(crashes)})
    for c in [c for c in cases if "\\" in c["meta"]["v"] or "'" in c["meta"]["v"]][:: max(1, len(cases) // 3)][:3]:
        ctx.sample({"kind": c["meta"]["kind"], "value": c["meta"]["v"], "dialect": c["meta"]["dialect"], "sql": c["meta"]["sql"]})
    ctx.cov["exhaustive"] = True


def replay(ctx, payload):
    p = payload["payload"]
    cases = [c for c in _chunk([(p["kind"], p["v"], p["dialect"], p["opts"])]) if "crash" not in c]
    verdicts = judge(ctx, "QuoteTrace", cases, "replay")
    for c in cases:
        if verdicts[c["id"]][0] != "OK":
            return f"{verdicts[c['id']][0]} for {p['kind']} {p['v']!r} in {p['dialect'] or 'base'}"
    return None
