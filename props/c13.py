"""C13 — source positions of tokens, nodes and errors (spec/Scanner.tla, spec/ScanTrace.tla)."""
from __future__ import annotations

import json
import os

from lib import tlc
from lib.tlc import MachineryError

ALPHA = ("SP", "TAB", "LF", "CR", "a", "1", "q", "bs", "p")


def write_cfg(path, *, maxlen, variant="code", alphabet=ALPHA, emit=False):
    lines = [
        "CONSTANTS",
        f"  MaxLen = {maxlen}",
        "  Alphabet = {" + ", ".join(f'"{a}"' for a in alphabet) + "}",
        f'  Variant = "{variant}"',
        "INIT Init",
    ]
    if emit:
        lines += ["NEXT NoNext", "INVARIANT EmitText"]
    else:
        lines += ["NEXT Next", "INVARIANT PosOK", "INVARIANT TypeOK"]
    with open(path, "w") as f:
        f.write("\n".join(lines) + "\n")

GEN_ALPHA = ("SP", "TAB", "LF", "CR", "a", "u", "1", "q", "i", "bs", "m", "s", "x", "d")
WS = {"SP", "TAB", "LF", "CR"}


def render(classes, d):
    """abstract text -> concrete characters for dialect object d"""
    out = []
    q = d.QUOTE_START if len(d.QUOTE_START) == 1 else "'"
    iq = d.IDENTIFIER_START if len(d.IDENTIFIER_START) == 1 else '"'
    letters = "aBc"
    for j, c in enumerate(classes):
        out.append(
            {"SP": " ", "TAB": "\t", "LF": "\n", "CR": "\r", "a": letters[j % 3], "u": "é", "1": "1", "q": q, "i": iq,
             "bs": "\\", "m": "-", "s": "/", "x": "*", "d": "$"}[c]
        )
    return "".join(out)


def contexts(classes, d):
    """(context name, sql) pairs for one abstract text"""
    t = render(classes, d)
    q = d.QUOTE_START if len(d.QUOTE_START) == 1 else "'"
    out = [("bare", t), ("select", "SELECT " + t + " x\ny")]
    cs = set(classes)
    if "q" not in cs:
        out.append(("string", f"SELECT {q}{t}{q} y\nz"))
    if cs <= WS:
        out.append(("fold", f"SELECT a FROM t GROUP{t}BY a\n, b ORDER{t}BY a"))
        out.append(("cmd", f"SHOW{t}TABLES{t}"))
        out.append(("script", f"SHOW{t}TABLES; SELECT TABLES{t};\nSHOW{t}TABLES"))
    if not ({"x", "s"} <= cs):
        out.append(("comment", f"SELECT 1 /*{t}*/ y\nz -- {t.replace(chr(10), ' ').replace(chr(13), ' ')}\nw"))
    if classes and classes[0] in ("a", "1", "u"):
        out.append(("number", "SELECT 1" + t + " x"))
    return out


def _string_starts(tk):
    starts = set(tk._QUOTES) | set(tk._IDENTIFIERS) | set(tk._FORMAT_STRINGS)
    return sorted(starts, key=len, reverse=True)


PROBES = [
    "SELECT 123L, 1.5D, 7S x\n, 2BD y",
    "SELECT 1_000 x,\n 1e3 y",
    "SELECT 0x1F, 0b11 x\n, X'1F' y",
    "SELECT a::INT, $1, @v, :p, ?\n, b",
    "SELECT N'x', E'y\\n', b'z', r'w'\n, c",
    "SELECT a /* c1 */ -- c2\n, /*+ HINT */ b",
    "SELECT {{ x }}, {% y %}\n, c",
    "SHOW tables; SELECT 1;\nSHOW tables",
    "SELECT a FROM tables; SHOW tables;\nEXPLAIN SELECT a FROM tables",
    "SELECT 1; SELECT 2;\n\nSELECT '3;'; SELECT 4 -- ;\n; SELECT 5",
]


def observe(sql, dialect, d, want_parse=True, tokenizer=None):
    """Runs the real tokenizer (and parser) and projects what C13 talks about."""
    import sqlglot
    from sqlglot import exp
    from sqlglot.errors import ParseError, TokenError
    from sqlglot.tokens import TokenType

    cps = [ord(c) for c in sql]
    tk = d.tokenizer_class
    starts = _string_starts(tk)
    cm = []
    for c in tk.COMMENTS:
        cm.append(c if isinstance(c, str) else c[0])
    case = {"cps": cps, "toks": [], "errs": [], "nodes": [], "te": [], "tokenized": True, "cm": [[ord(x) for x in m] for m in cm if m],
            "qs": [[ord(x) for x in m] for m in starts if m]}
    try:
        toks = tokenizer.tokenize(sql) if tokenizer is not None else d.tokenize(sql)
    except TokenError as e:
        case["tokenized"] = False
        s, en = getattr(e, "start", None), getattr(e, "end", None)
        if s is not None and en is not None:
            msg = str(e)
            # "Error tokenizing '<context>'"
            ctx = msg[len("Error tokenizing '") : -1] if msg.startswith("Error tokenizing '") else None
            if ctx is not None:
                case["te"] = [{"s": s, "e": en, "ctx": [ord(c) for c in ctx]}]
        return case, None
    string_types = {
        TokenType.STRING, TokenType.IDENTIFIER, TokenType.NATIONAL_STRING, TokenType.RAW_STRING, TokenType.HEX_STRING,
        TokenType.BIT_STRING, TokenType.BYTE_STRING, TokenType.HEREDOC_STRING, TokenType.UNICODE_STRING,
    }
    for t in toks:
        sl = sql[t.start : t.end + 1] if 0 <= t.start <= t.end < len(sql) else ""
        if t.token_type in string_types:
            if t.token_type in (TokenType.HEX_STRING, TokenType.BIT_STRING) and sl[:2].lower() in ("0x", "0b"):
                k = "sfx"
            elif t.token_type == TokenType.STRING and not any(sl.startswith(s) for s in starts):
                k = "cmd"
            else:
                k = "str"
        elif any(ch.isspace() for ch in sl):
            k = "ws"
        elif t.token_type == TokenType.NUMBER and "_" in sl:
            k = "free"
        else:
            k = "raw"
        case["toks"].append({"s": t.start, "e": t.end, "l": t.line, "c": t.col, "k": k, "txt": [ord(c) for c in t.text],
                             "tt": t.token_type.name})
    if not want_parse:
        return case, toks
    try:
        trees = sqlglot.parse(sql, read=d, error_level=sqlglot.ErrorLevel.RAISE)
    except ParseError as e:
        for er in e.errors:
            if er.get("line") is None:
                continue
            case["errs"].append({"l": er["line"], "c": er["col"], "hl": [ord(c) for c in er.get("highlight") or ""],
                                 "sc": [ord(c) for c in er.get("start_context") or ""], "ec": [ord(c) for c in er.get("end_context") or ""]})
        return case, toks
    except Exception:
        return case, toks  # leaked exceptions are C05's subject
    for tr in trees:
        if tr is None:
            continue
        for nd in tr.find_all(exp.Identifier):
            m = nd._meta or {}
            if "start" in m and m.get("start") is not None and isinstance(nd.this, str):
                case["nodes"].append({"s": m["start"], "e": m["end"], "l": m["line"], "c": m["col"], "name": [ord(c) for c in nd.this]})
    return case, toks


def _worker(arg):
    import sys

    sys.path.insert(0, os.environ.get("VERIF_REPO", "/repo"))
    from lib.guard import HardTimeout, limits, time_limit
    from sqlglot.dialects.dialect import Dialect

    limits()
    items, want_parse = arg
    import logging

    logging.getLogger("sqlglot").setLevel(logging.CRITICAL)
    out = []
    dcache = {}
    tcache = {}
    for classes, dialect in items:
        d = dcache.get(dialect)
        if d is None:
            d = dcache[dialect] = Dialect.get_or_raise(dialect or None)
            tcache[dialect] = d.tokenizer()  # one long-lived instance per dialect: reset() must isolate the calls
        ctxs = contexts(classes, d) if classes else [("probe", s) for s in PROBES]
        for ctxname, sql in ctxs:
            if not sql:
                continue
            try:
                with time_limit(10):
                    case, _ = observe(sql, dialect, d, want_parse, tcache[dialect])
            except (Exception, HardTimeout) as e:
                out.append({"meta": {"dialect": dialect, "ctx": ctxname, "classes": classes, "sql": sql}, "crash": f"{type(e).__name__}: {e}"})
                continue
            case["meta"] = {"dialect": dialect, "ctx": ctxname, "classes": list(classes), "sql": sql}
            out.append(case)
    return out


def judge(ctx, cases, label):
    """TLC (ScanTrace) evaluates the clauses on every recorded case; returns {id: first failing clause or OK}."""
    import re
    from concurrent.futures import ThreadPoolExecutor

    for i, c in enumerate(cases):
        c["id"] = i + 1
    nshard = max(1, min(16, len(cases) // 2000 + 1))
    shards = [cases[k::nshard] for k in range(nshard)]
    verdicts = {}

    def one(k):
        sh = shards[k]
        if not sh:
            return None
        casep = os.path.join(ctx.work, f"scan_{label}_{k}.json")
        with open(casep, "w") as f:
            json.dump([{kk: v for kk, v in c.items() if kk != "meta"} for c in sh], f)
        cfgp = os.path.join(ctx.work, f"scan_{label}_{k}.cfg")
        with open(cfgp, "w") as f:
            f.write("INIT Init\nNEXT Next\nINVARIANT Verdict\n")
        return tlc.run("ScanTrace", cfgp, ctx.work, workers=2 if nshard > 4 else 8, timeout_s=3000, env={"CASES": casep}, allow_violation=False), cfgp

    with ThreadPoolExecutor(max_workers=8) as ex:
        for r in ex.map(one, range(nshard)):
            if r is None:
                continue
            res, cfgp = r
            ctx.model(res, "ScanTrace", cfgp, f"clauses evaluated on recorded tokenizer/parser runs ({label})")
            for line in res.tuples:
                m = re.match(r'<<"V", (\d+), "(\w+)", (\d+)>>', line)
                if m:
                    cid = int(m.group(1))
                    if cid in verdicts:
                        raise MachineryError(f"duplicate verdict {cid}")
                    verdicts[cid] = (m.group(2), int(m.group(3)))
    missing = [c["id"] for c in cases if c["id"] not in verdicts]
    if missing:
        raise MachineryError(f"ScanTrace printed no verdict for {len(missing)} cases, e.g. {missing[:5]}")
    return verdicts


INTERESTING = ("LF", "CR", "bs", "q", "i", "d", "x", "s", "m", "u", "TAB")


def _key(clause, case, k):
    """clause + type of the first token at which it fails (token clauses), else clause + context + features"""
    if k and k <= len(case["toks"]):
        tt = case["toks"][k - 1]["tt"]
        if clause == "Ordered" and k >= 2:
            prev = case["toks"][k - 2]["tt"]
            # the earlier token of the overlapping pair names the site; synthetic marker tokens stand alone
            if prev == "HIVE_TOKEN_STREAM":
                return "Ordered:HIVE_TOKEN_STREAM"
            return "Ordered:DCOLON" if "DCOLON" in (prev, tt) else f"Ordered:{prev}>{tt}"
        return f"{clause}:{tt}"
    meta = case["meta"]
    feats = [c for c in INTERESTING if c in meta["classes"]]
    return f"{clause}:{meta['ctx']}:{'+'.join(feats) or 'plain'}"


def conformance(ctx, maxlen, dialects, label, stride=1, offset=0, want_parse=True):
    from concurrent.futures import ProcessPoolExecutor

    cfg = os.path.join(ctx.work, f"gen_{maxlen}.cfg")
    write_cfg(cfg, maxlen=maxlen, alphabet=GEN_ALPHA, emit=True)
    res = tlc.run("Scanner", cfg, ctx.work, workers=16, timeout_s=1800, allow_violation=False)
    ctx.model(res, "Scanner", cfg, f"text generator: all abstract texts of length <= {maxlen} over {len(GEN_ALPHA)} classes")
    texts = sorted(tuple(p["t"]) for p in res.printed)
    if len(texts) != res.distinct:
        raise MachineryError(f"generator printed {len(texts)} texts for {res.distinct} initial states")
    texts = texts[offset::stride]
    items = [(t, d) for d in dialects for t in texts] + [((), d) for d in dialects]
    chunks = [items[k::64] for k in range(64)]
    cases, crashes = [], []
    with ProcessPoolExecutor(max_workers=16) as ex:
        for out in ex.map(_worker, [(c, want_parse) for c in chunks if c]):
            for c in out:
                (crashes if "crash" in c else cases).append(c)
    if len(crashes) > len(cases) // 50:
        raise MachineryError(f"{len(crashes)} observation crashes, e.g. {crashes[0]}")
    verdicts = judge(ctx, cases, label)
    ctx.count(len(cases), traces=len(cases))
    stats = {}
    for c in cases:
        v, k = verdicts[c["id"]]
        m = c["meta"]
        stats[v] = stats.get(v, 0) + 1
        if any(x in m["classes"] for x in ("LF", "CR")) and c["toks"]:
            ctx.nontrivial((m["sql"], m["dialect"]))
        if v != "OK":
            ctx.violation(
                _key(v, c, k),
                f"{v} is false for {m['sql']!r} in dialect {m['dialect'] or 'base'} (context {m['ctx']})",
                {"kind": "text", "sql": m["sql"], "dialect": m["dialect"], "clause": v, "classes": m["classes"], "ctx": m["ctx"],
                 "tokens": [(t["tt"], t["s"], t["e"], t["l"], t["c"]) for t in c["toks"]][:12]},
            )
    ctx.notes.setdefault("conformance", []).append({"label": label, "maxlen": maxlen, "texts": len(texts), "dialects": len(dialects), "cases": len(cases), "verdicts": stats, "observer_crashes": len(crashes)})
    for c in cases[:: max(1, len(cases) // 2)][:2]:
        ctx.sample({"kind": "tokenizer run judged by ScanTrace", "sql": c["meta"]["sql"], "dialect": c["meta"]["dialect"],
                    "tokens": [(t["tt"], t["s"], t["e"], t["l"], t["c"]) for t in c["toks"]][:8], "verdict": verdicts[c["id"]][0]})


def all_dialects():
    from sqlglot.dialects import DIALECT_MODULE_NAMES

    return [""] + sorted(DIALECT_MODULE_NAMES)


def run(ctx):
    ctx.assumptions += [
        "line/column semantics are those of _advance: a break is LF or a CR not followed by LF; a token's line/col are those of its last character",
        "gap text is accepted when it is whitespace or starts with one of the dialect's comment openers",
    ]
    ctx.cov["rule"] = (
        "all abstract texts up to the length bound over 14 character classes (TLC-enumerated), rendered per dialect in 7 contexts, "
        "tokenized/parsed by the real code, every case judged by TLC (ScanTrace); distinct by (sql, dialect); non-trivial = the text "
        "contains a line break and produced at least one token"
    )
    # 1. the bookkeeping model
    for ml in ([5] if ctx.thorough else [4]):
        cfg = os.path.join(ctx.work, f"mc_{ml}.cfg")
        write_cfg(cfg, maxlen=ml)
        res = tlc.run("Scanner", cfg, ctx.work, workers=16, timeout_s=3000, allow_violation=False)
        ctx.model(res, "Scanner", cfg, f"exhaustive: PosOK over all scanning behaviours on all texts of length <= {ml}")
    for v in ("fast_lf_only", "fold_jump", "escape_jump", "blank_cr"):
        cfg = os.path.join(ctx.work, f"neg_{v}.cfg")
        write_cfg(cfg, maxlen=3, variant=v)
        res = tlc.run("Scanner", cfg, ctx.work, workers=8, timeout_s=600)
        if "PosOK" not in res.violated:
            raise MachineryError(f"negative control {v} does not violate PosOK")
        ctx.notes.setdefault("negative_controls", {})[v] = res.violated
    # 2. conformance
    ds = all_dialects()
    if ctx.thorough:
        conformance(ctx, 3, ds, "len3_all")
        conformance(ctx, 4, ds, "len4_all", stride=4, offset=ctx.seed % 4)
        conformance(ctx, 4, ["", "mysql", "postgres", "bigquery", "snowflake", "tsql", "clickhouse", "duckdb"], "len4_core")
    else:
        conformance(ctx, 3, ds, "len3_all", stride=2, offset=ctx.seed % 2)
        conformance(ctx, 4, ["", "mysql", "postgres"], "len4_core", stride=8, offset=ctx.seed % 8)
    ctx.cov["exhaustive"] = True


def replay(ctx, payload):
    from sqlglot.dialects.dialect import Dialect

    p = payload["payload"]
    d = Dialect.get_or_raise(p["dialect"] or None)
    case, _ = observe(p["sql"], p["dialect"], d, True)
    case["meta"] = {"dialect": p["dialect"], "ctx": p["ctx"], "classes": p["classes"], "sql": p["sql"]}
    v, k = judge(ctx, [case], "replay")[1]
    if v != "OK" and _key(v, case, k) in ctx.known:
        return None
    return None if v == "OK" else f"{v} is false for {p['sql']!r} ({p['dialect'] or 'base'})"
