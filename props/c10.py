"""C10 — qualification is complete, idempotent and faithful to dialect identifier rules
(spec/Scope.tla: identifier normalisation model + query skeleton generator + scoping rules; spec/QualifyTrace.tla acceptor)."""
from __future__ import annotations

import hashlib
import json
import os
from concurrent.futures import ProcessPoolExecutor

from lib import tlc
from lib.tlc import MachineryError
from lib.tracejudge import judge

TABLES = {"t": ["a", "b", "k"], "u": ["a", "c"], "e": ["a", "d"]}
DIALECTS = ["", "postgres", "snowflake", "oracle", "mysql", "clickhouse", "duckdb", "bigquery", "spark", "trino", "tsql", "sqlite"]
FOLDING = {"": "lower", "postgres": "lower", "snowflake": "upper", "oracle": "upper", "mysql": "sensitive", "clickhouse": "sensitive", "duckdb": "insensitive",
           "bigquery": "insensitive", "spark": "insensitive", "trino": "insensitive", "tsql": "insensitive", "sqlite": "insensitive"}


def schema_for(depth):
    s = {t: {c: "INT" for c in cols} for t, cols in TABLES.items()}
    if depth >= 2:
        s = {"db": s}
    if depth == 3:
        s = {"cat": s}
    return s


def build(sk, dialect):
    """skeleton -> (sql, expected outcome, hand-expanded sql or None, expected output names or None). None when not meaningful."""
    fold = FOLDING[dialect]
    q = sk["qual"]
    names = sk["names"]
    if names == "upper_unquoted" and fold == "sensitive":
        return None

    def col(tbl, c, force=False):
        cc = c.upper() if names == "upper_unquoted" else c
        if q == "full" or force:
            return f"{tbl}.{cc}"
        return cc

    shape, star, order, group = sk["shape"], sk["star"], sk["order"], sk["group"]
    expect = "ok"
    out_names = None
    expanded = None
    frm = "t"
    sel_cols = [(col("t", "b"), "b")]
    where = ""
    tail = ""
    prefix = ""
    src_alias = "t"
    star_cols = [("t", c) for c in TABLES["t"]]
    if shape == "single":
        sel_cols = [(col("t", "a"), "a"), (col("t", "b"), "b")]
    elif shape == "join":
        if sk["using"]:
            frm = "t JOIN u USING (a)"
            sel_cols = [("a" if q != "full" else "t.a", "a"), (col("t", "b"), "b"), (col("u", "c"), "c")]
        else:
            frm = "t JOIN u ON t.a = u.a"
            sel_cols = [("t.a", "a"), (col("t", "b"), "b"), (col("u", "c"), "c")]
        star_cols = [("t", c) for c in TABLES["t"]] + [("u", c) for c in TABLES["u"]]
    elif shape == "derived":
        frm = f"(SELECT {col('t', 'a')} AS a, {col('t', 'b')} AS b FROM t) AS x"
        sel_cols = [(col("x", "a", q == "partial"), "a"), (col("x", "b"), "b")]
        src_alias, star_cols = "x", [("x", "a"), ("x", "b")]
    elif shape == "derived_join":
        # a derived table written BEFORE a physical table: * must expand in FROM order
        frm = f"(SELECT {col('t', 'a')} AS a, {col('t', 'b')} AS b FROM t) AS x JOIN u ON x.a = u.a"
        sel_cols = [("x.a", "a"), (col("x", "b"), "b"), (col("u", "c"), "c")]
        src_alias, star_cols = "x", [("x", "a"), ("x", "b"), ("u", "a"), ("u", "c")]
    elif shape == "cte":
        prefix = f"WITH c AS (SELECT {col('t', 'a')} AS a, {col('t', 'b')} AS b FROM t) "
        frm = "c"
        sel_cols = [(col("c", "a"), "a"), (col("c", "b"), "b")]
        src_alias, star_cols = "c", [("c", "a"), ("c", "b")]
    elif shape == "cte_cols":
        prefix = f"WITH c(p, q) AS (SELECT {col('t', 'a')}, {col('t', 'b')} FROM t) "
        frm = "c"
        sel_cols = [(col("c", "p"), "p"), (col("c", "q"), "q")]
        src_alias, star_cols = "c", [("c", "p"), ("c", "q")]
    elif shape == "where_sub":
        sel_cols = [(col("t", "a"), "a"), (col("t", "b"), "b")]
        where = f" WHERE {col('t', 'b')} IN (SELECT {col('e', 'd')} FROM e WHERE {'e.a' if q != 'none' else 'e.a'} = {col('t', 'k')})"
    elif shape == "lateral":
        frm = f"t CROSS JOIN LATERAL (SELECT {col('t', 'b')} + 1 AS x FROM u) AS l"
        sel_cols = [("t.a", "a"), (col("l", "x"), "x")]
        star_cols = [("t", c) for c in TABLES["t"]] + [("l", "x")]
    elif shape == "illegal_sibling":
        frm = "t, (SELECT t.b AS z FROM u) AS s"
        sel_cols = [("t.a", "a"), (col("s", "z"), "z")]
        expect = "raise"
    elif shape == "illegal_unknown":
        sel_cols = [(col("t", "a"), "a"), ("nope", "nope")]
        expect = "raise"
    elif shape == "ambiguous":
        frm = "t JOIN u ON t.b = u.c"
        sel_cols = [("a", "a")]
        expect = "raise"
        if q == "full":
            return None
    elif shape == "union":
        sel_cols = [(col("t", "a"), "a"), (col("t", "b"), "b")]
        tail = f" UNION ALL SELECT {col('u', 'a')}, {col('u', 'c')} FROM u"
    if star != "none":
        if shape in ("illegal_unknown", "ambiguous", "union", "illegal_sibling", "where_sub"):
            return None
        qual_star = star.startswith("qualified")
        first_tbl = star_cols[0][0]
        target = f"{first_tbl}.*" if qual_star else "*"
        cols = [c for c in star_cols if not qual_star or c[0] == first_tbl]
        mod = ""
        want = [(f"{t_}.{c}", c) for t_, c in cols]
        if star in ("except", "qualified_except"):
            drop = cols[1][1]
            mod = f" EXCEPT ({drop})"
            want = [(e, n) for e, n in want if n != drop]
        elif star in ("replace", "qualified_replace"):
            rc = cols[0][1]
            mod = f" REPLACE ({first_tbl}.{rc} + 1 AS {rc})"
            want = [((f"{first_tbl}.{rc} + 1" if n == rc else e), n) for e, n in want]
        if shape == "join" and sk["using"]:
            return None  # with USING sqlglot shows the merged column as COALESCE(t.a, u.a); covered by the non-star variants
        if shape in ("join", "lateral", "derived_join") and star in ("except", "replace") and len({c for _, c in cols}) < len(cols):
            return None  # EXCEPT / REPLACE by name over a bare star with duplicate column names is not well defined
        sel_sql = target + mod
        expanded_sel = ", ".join(f"{e} AS {n}" for e, n in want)
        out_names = [n for _, n in want]
    else:
        sel_sql = ", ".join(f"{e} AS {n}" if names != "mixed_quoted" or n != sel_cols[0][1] else f'{e} AS "K"' for e, n in sel_cols)
        out_names = [("K" if names == "mixed_quoted" and n == sel_cols[0][1] else n) for _, n in sel_cols]
        expanded_sel = None
    if names == "nonascii":
        sel_sql = sel_sql.replace(" AS b", " AS é")
        if expanded_sel:
            expanded_sel = expanded_sel.replace(" AS b", " AS é")
        out_names = ["é" if n == "b" else n for n in out_names]
    grp = ""
    if group != "none" and star == "none" and shape not in ("union",) and expect == "ok":
        keys = [n if group == "alias" else e for e, n in sel_cols]
        if names == "mixed_quoted" and group == "alias":
            keys[0] = '"K"'
        if names == "nonascii" and group == "alias":
            keys = ["é" if k_ == "b" else k_ for k_ in keys]
        grp = " GROUP BY " + ", ".join(keys)
    ordr = ""
    if order != "none" and expect == "ok":
        if shape == "union":
            if order not in ("alias", "position"):
                return None
        first_e, first_n = (sel_cols[0] if star == "none" else (want[0][0], want[0][1]))
        if order == "alias":
            ordr = f" ORDER BY {first_n if names != 'mixed_quoted' or star != 'none' else chr(34) + 'K' + chr(34)}"
        elif order == "alias_case":
            # the first projection is aliased "K" (quoted, case-sensitive where quotes matter); k is a real column of t
            if names != "mixed_quoted" or shape not in ("single", "where_sub") or star != "none":
                return None
            ordr = " ORDER BY k"
        elif order == "col":
            ordr = f" ORDER BY {col('t', 'k') if src_alias == 't' and shape not in ('derived', 'cte', 'cte_cols', 'derived_join') else first_n}"
        elif order == "position":
            ordr = " ORDER BY 1"
        elif order == "expr":
            ordr = f" ORDER BY {first_e} + 1"
    depth = sk["depth"]
    if depth > 1:
        pre = "db." if depth == 2 else "cat.db."
        for tb in TABLES:
            frm = frm.replace(f" {tb} ", f" {pre}{tb} AS {tb} ").replace(f" {tb})", f" {pre}{tb} AS {tb})")
            if frm == tb or frm.startswith(tb + " ") or frm.startswith(tb + ","):
                frm = f"{pre}{tb} AS {tb}" + frm[len(tb):]
            prefix = prefix.replace(f" FROM {tb})", f" FROM {pre}{tb} AS {tb})")
            where = where.replace(f" FROM {tb} ", f" FROM {pre}{tb} AS {tb} ")
            tail = tail.replace(f" FROM {tb}", f" FROM {pre}{tb} AS {tb}")
    sql = f"{prefix}SELECT {sel_sql} FROM {frm}{where}{grp}{tail}{ordr}"
    exp_sql = f"{prefix}SELECT {expanded_sel} FROM {frm}{where}{grp}{tail}{ordr}" if expanded_sel else None
    return sql, expect, exp_sql, out_names


def analyse(tree):
    """Independent traversal of the qualified tree: (tables, columns with the names visible where they stand)."""
    from sqlglot import exp

    tables, cols = [], []

    def own_nodes(sel):
        """expressions that belong to this SELECT itself (stop at nested queries)"""
        out = []
        stack = [v for k, v in sel.args.items() if k not in ("from_", "joins", "with_", "laterals") and v is not None]
        while stack:
            n = stack.pop()
            if isinstance(n, list):
                stack.extend(n)
                continue
            if not isinstance(n, exp.Expr):
                continue
            if isinstance(n, (exp.Select, exp.SetOperation, exp.Subquery)) and n is not sel:
                out.append(("sub", n))
                continue
            out.append(("node", n))
            stack.extend(n.args.values())
        return out

    def source_alias(node):
        if isinstance(node, exp.Table):
            tables.append({"aliased": bool(node.alias)})
        return node.alias_or_name

    def visit(q, inherited):
        if isinstance(q, exp.Subquery):
            return visit(q.this, inherited)
        w = q.args.get("with_")
        if w:
            for cte in w.expressions:
                visit(cte.this, inherited)
        if isinstance(q, exp.SetOperation):
            visit(q.left, inherited)
            visit(q.right, inherited)
            names = set(q.named_selects)
            for o in (q.args.get("order").expressions if q.args.get("order") else []):
                for c in o.find_all(exp.Column):
                    cols.append({"qual": c.table, "visible": sorted(inherited), "outref": (not c.table) and c.name in names})
            return
        if not isinstance(q, exp.Select):
            return
        sources = []
        frm = q.args.get("from_")
        items = ([frm.this] if frm else []) + [j.this for j in (q.args.get("joins") or [])] + list(q.args.get("laterals") or [])
        seen_so_far = set()
        for it in items:
            if isinstance(it, exp.Lateral) or (isinstance(it, exp.Subquery) and isinstance(it.parent, exp.Join) and it.parent.args.get("kind") == "LATERAL"):
                visit(it.this if isinstance(it, exp.Subquery) else it.this, inherited | seen_so_far)
            elif isinstance(it, exp.Subquery):
                visit(it.this, inherited)          # a plain derived table does not see its siblings
            a = source_alias(it)
            if a:
                sources.append(a)
                seen_so_far.add(a)
        visible = inherited | set(sources)
        names = set(q.named_selects)
        for j in q.args.get("joins") or []:
            on = j.args.get("on")
            if on is not None:
                for c in on.find_all(exp.Column):
                    if c.find_ancestor(exp.Select) is q:
                        cols.append({"qual": c.table, "visible": sorted(visible), "outref": False})
        for kind, n in own_nodes(q):
            if kind == "sub":
                visit(n, visible)                   # subqueries in WHERE / SELECT / HAVING may be correlated
            elif isinstance(n, exp.Column):
                in_order = n.find_ancestor(exp.Order) is not None and n.find_ancestor(exp.Order).parent is q
                cols.append({"qual": n.table, "visible": sorted(visible), "outref": (not n.table) and in_order and n.name in names})

    visit(tree, set())
    return tables, cols


def _digest(tree):
    from lib.astproj import project_tree

    nodes, _ = project_tree(tree)
    return hashlib.sha1(json.dumps([(n["cls"], n["val"], sorted((k, a["ids"]) for k, a in n["args"].items())) for n in nodes], sort_keys=True).encode()).hexdigest()[:20]


def observe(sql, expect, exp_sql, out_names, dialect, depth):
    import sqlglot
    from sqlglot import exp
    from sqlglot.errors import OptimizeError, SqlglotError
    from sqlglot.optimizer.qualify import qualify

    d = dialect or None
    schema = schema_for(depth)
    case = {"kind": "qualify", "expect": expect, "outcome": "", "tables": [], "cols": [], "stars": [], "names_out": [], "names_want": out_names or [], "idempotent": True,
            "twice": "", "once": "", "original": "", "case_sensitive": False}
    try:
        tree = sqlglot.parse_one(sql, dialect=d)
    except SqlglotError:
        return None
    try:
        res = qualify(tree, schema=schema, dialect=d)
    except OptimizeError:
        case["outcome"] = "OptimizeError"
        return case
    except SqlglotError as e:
        case["outcome"] = type(e).__name__
        return case
    case["outcome"] = "ok"
    case["tables"], case["cols"] = analyse(res)
    norm = lambda s: s
    if isinstance(res, exp.Query):
        case["names_out"] = [n for n in res.named_selects]
        if out_names:
            # expected names go through the dialect's own identifier normalisation (unquoted names fold)
            from sqlglot.optimizer.normalize_identifiers import normalize_identifiers

            case["names_want"] = [normalize_identifiers(exp.to_identifier(n, quoted=(n == "K")), dialect=d).name for n in out_names]
    if exp_sql:
        try:
            want = qualify(sqlglot.parse_one(exp_sql, dialect=d), schema=schema, dialect=d)
            sel_g = res if isinstance(res, exp.Select) else res.find(exp.Select)
            sel_w = want if isinstance(want, exp.Select) else want.find(exp.Select)
            case["stars"].append({"got": [e.sql(dialect=d) for e in sel_g.expressions], "want": [e.sql(dialect=d) for e in sel_w.expressions]})
        except SqlglotError:
            pass
    try:
        again = qualify(res.copy(), schema=schema, dialect=d)
        case["idempotent"] = _digest(again) == _digest(res)
    except SqlglotError:
        case["idempotent"] = False
    return case


def observe_norm(text, quoted, dialect):
    from sqlglot import exp
    from sqlglot.dialects.dialect import Dialect
    from sqlglot.optimizer.normalize_identifiers import normalize_identifiers

    d = Dialect.get_or_raise(dialect or None)
    ident = exp.to_identifier(text, quoted=quoted)
    once = normalize_identifiers(ident.copy(), dialect=d)
    twice = normalize_identifiers(once.copy(), dialect=d)
    strategy = d.normalization_strategy.name
    cs = strategy == "CASE_SENSITIVE" or (quoted and strategy in ("LOWERCASE", "UPPERCASE"))
    return {"kind": "normalize", "expect": "", "outcome": "", "tables": [], "cols": [], "stars": [], "names_out": [], "names_want": [], "idempotent": True,
            "twice": ascii(twice.name), "once": ascii(once.name), "original": ascii(text), "case_sensitive": cs}


def _chunk(arg):
    import sys

    sys.path.insert(0, os.environ.get("VERIF_REPO", "/repo"))
    import logging

    logging.getLogger("sqlglot").setLevel(logging.CRITICAL)
    from lib.guard import HardTimeout, limits, time_limit

    limits()
    out = []
    for w in arg:
        try:
            with time_limit(30):
                if w["kind"] == "normalize":
                    c = observe_norm(w["text"], w["quoted"], w["dialect"])
                else:
                    b = build(w["sk"], w["dialect"])
                    if not b:
                        continue
                    c = observe(b[0], b[1], b[2], b[3], w["dialect"], w["sk"]["depth"])
                    if c is None:
                        continue
                    w = {**w, "sql": b[0]}
        except HardTimeout:
            continue
        except Exception as e:
            out.append({"crash": f"{type(e).__name__}: {str(e)[:150]}", "meta": w})
            continue
        c["meta"] = w
        out.append(c)
    return out


def run(ctx):
    ctx.assumptions += [
        "the scoping rules are those written in Scope.tla (Visible): own FROM/JOIN sources, enclosing scopes for subqueries outside FROM and for LATERAL, never the siblings of a plain derived table",
        "the expected expansion of a star is obtained by qualifying the hand-expanded query (same schema, same dialect)",
        "an OptimizeError is always an acceptable outcome for a query expected to be valid (the property allows refusing)",
    ]
    ctx.cov["rule"] = (
        "TLC-generated skeletons (shape x qualification x star variant x ORDER BY variant x GROUP BY variant x USING x identifier case x schema depth) rendered for 12 dialects covering "
        "all normalisation strategies; qualify() is run, the returned tree is projected by an independent traversal and judged by TLC (QualifyTrace); plus identifier normalisation "
        "cases (case classes x quoted x dialect). distinct by (sql, dialect, depth); non-trivial = the query has an unqualified column, a star or a nested scope"
    )
    cfg = os.path.join(ctx.work, "scope_assume.cfg")
    with open(cfg, "w") as f:
        f.write('CONSTANTS\n  K = 1\n  Focus = "sample"\nINIT Init\nNEXT Next\n')
    res = tlc.run("Scope", cfg, ctx.work, workers=4, timeout_s=600, seed=1, allow_violation=False)
    ctx.model(res, "Scope", cfg, "ASSUME Idempotent /\\ Untouched over all strategies x case classes (checked by TLC at start-up)")
    cfg = os.path.join(ctx.work, "scope_gen.cfg")
    with open(cfg, "w") as f:
        f.write('CONSTANTS\n  K = 1\n  Focus = "all"\nINIT Init\nNEXT Next\nINVARIANT Emit\n')
    res = tlc.run("Scope", cfg, ctx.work, workers=8, timeout_s=900, allow_violation=False)
    ctx.model(res, "Scope", cfg, "generator: the full product of skeleton features")
    sks = sorted((p["sk"] for p in res.printed), key=lambda d: json.dumps(d, sort_keys=True))
    if len(sks) != res.distinct:
        raise MachineryError("skeleton generator output incomplete")
    import zlib

    work, seen = [], set()
    frac = 1 if ctx.thorough else 6
    for sk in sks:
        for di, dialect in enumerate(DIALECTS):
            b = build(sk, dialect)
            if not b:
                continue
            key = (b[0], dialect, sk["depth"])
            if key in seen:
                continue
            seen.add(key)
            h = zlib.crc32(json.dumps(key).encode())
            if h % frac == ctx.seed % frac:
                work.append({"kind": "qualify", "sk": sk, "dialect": dialect})
    texts = ["a", "A", "Ab", "aB", "é", "É", "aÉ", "ǅ", "x1", "ı", "ß", "ΑΒ", "αβ"]
    from lib import producers

    for dialect in producers.all_dialects():
        for tx in texts:
            for quoted in (False, True):
                work.append({"kind": "normalize", "text": tx, "quoted": quoted, "dialect": dialect})
    chunks = [work[i::64] for i in range(64)]
    cases, crashes = [], []
    with ProcessPoolExecutor(max_workers=16) as ex:
        for o in ex.map(_chunk, [c for c in chunks if c]):
            for c in o:
                (crashes if "crash" in c else cases).append(c)
    if len(crashes) > max(10, len(cases) // 50):
        raise MachineryError(f"{len(crashes)} observer crashes, e.g. {crashes[0]}")
    verdicts = judge(ctx, "QualifyTrace", cases, "qualify", per_shard=3000)
    ctx.count(len(cases), traces=len(cases))
    stats, outcomes = {}, {}
    for c in cases:
        clause = verdicts[c["id"]][0]
        m = c["meta"]
        stats[clause] = stats.get(clause, 0) + 1
        if c["kind"] == "qualify":
            outcomes[c["outcome"]] = outcomes.get(c["outcome"], 0) + 1
            sk = m["sk"]
            if sk["qual"] != "full" or sk["star"] != "none" or sk["shape"] not in ("single",):
                ctx.nontrivial((m["sql"], m["dialect"], sk["depth"]))
        if clause != "OK":
            if c["kind"] == "normalize":
                ctx.violation(f"Normalize:{m['dialect'] or 'base'}:{'quoted' if m['quoted'] else 'unquoted'}", f"normalize_identifiers({m['text']!r}, quoted={m['quoted']}) in {m['dialect'] or 'base'}: once {c['once']}, twice {c['twice']}", m)
            else:
                sk = m["sk"]
                feats = [f"shape:{sk['shape']}"] + [f"{k}:{sk[k]}" for k in ("star", "order") if sk[k] != "none"] + ([f"group:{sk['group']}"] if sk["group"] != "none" and sk["star"] == "none" else []) + (["using"] if sk["using"] and sk["shape"] == "join" else []) + ([f"names:{sk['names']}"] if sk["names"] != "lower" else [])
                key = f"{clause}:{'+'.join(feats)}:{FOLDING[m['dialect']]}"
                if clause == "StarsExpanded" and sk["shape"] == "derived_join" and sk["star"] == "bare" and all(sorted(map(str, x["got"])) == sorted(map(str, x["want"])) for x in c["stars"]):
                    key = "StarsExpanded:star_order:derived_table_before_table"   # the same columns in another order
                ctx.violation(key,
                              f"{clause} fails for qualify({m['sql']!r}) in {m['dialect'] or 'base'} (schema depth {sk['depth']}): outcome {c['outcome']}, names {c['names_out']} (want {c['names_want']}), "
                              f"unresolved columns {[x for x in c['cols'] if not ((x['qual'] and x['qual'] in x['visible']) or (not x['qual'] and x['outref']))][:3]}, stars {c['stars'][:1]}",
                              {k: m[k] for k in m})
    ctx.notes.update({"cases": len(cases), "verdicts": stats, "outcomes": outcomes, "observer_crashes": len(crashes)})
    for c in [c for c in cases if c["kind"] == "qualify" and c["outcome"] == "ok"][:: max(1, len(cases) // 3)][:2]:
        ctx.sample({"sql": c["meta"]["sql"], "dialect": c["meta"]["dialect"], "columns": c["cols"][:4], "names_out": c["names_out"]})
    ctx.cov["exhaustive"] = ctx.thorough


def replay(ctx, payload):
    p = payload["payload"]
    cases = [c for c in _chunk([p]) if "crash" not in c]
    verdicts = judge(ctx, "QualifyTrace", cases, "replay")
    for c in cases:
        if verdicts[c["id"]][0] != "OK":
            return f"{verdicts[c['id']][0]} fails for {c['meta'].get('sql', p.get('text'))!r} in {p['dialect'] or 'base'}"
    return None
