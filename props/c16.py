"""C16 - types inferred by annotate_types (DuckDB dialect) agree in class with the types DuckDB produces.

  * Types.tla: the type classes of the property (a partition of type names), the clause SameClass, and the generator of
    expression terms (51 unary, 38 binary, 9 ternary forms over 10 typed columns and 10 literals; depth 2 drawn by TLC).
  * the driver renders each term for DuckDB, evaluates it on a one-row table (DuckDB 1.x, in-process) to obtain the result
    type, runs qualify + annotate_types under the duckdb dialect, and hands (inferred, engine, sql unchanged) to the
    acceptor TypeTrace.tla.  Terms DuckDB rejects (binder / conversion errors) are not expressions "over typed columns" and
    are skipped (counted).
"""
from __future__ import annotations

import json
import os
import re
import zlib
from concurrent.futures import ProcessPoolExecutor

from lib import tlc
from lib.tlc import MachineryError
from lib.tracejudge import judge

COLS = {"b": "BOOLEAN", "ti": "TINYINT", "si": "SMALLINT", "i": "INT", "bi": "BIGINT", "d": "DOUBLE", "dec": "DECIMAL(10,2)", "s": "VARCHAR", "dt": "DATE", "ts": "TIMESTAMP"}
ROW = "(true, 1, 2, 3, 4, 1.5, 2.25, '7', DATE '2020-01-02', TIMESTAMP '2020-01-02 03:04:05')"
LITS = {"int": "2", "float": "2.5", "str": "'7'", "null": "NULL", "date": "DATE '2020-03-04'", "ts": "TIMESTAMP '2020-03-04 05:06:07'", "iv_day": "INTERVAL 1 DAY", "iv_hour": "INTERVAL 2 HOUR",
        "iv_cast": "CAST('2 hours' AS INTERVAL)", "true": "TRUE"}
T = {
    "neg": "-{0}", "not": "NOT {0}", "isnull": "{0} IS NULL", "upper": "UPPER({0})", "length": "LENGTH({0})", "trim": "TRIM({0})", "abs": "ABS({0})", "round": "ROUND({0})", "round1": "ROUND({0}, 1)",
    "floor": "FLOOR({0})", "ceil": "CEIL({0})", "sqrt": "SQRT({0})", "ln": "LN({0})", "sign": "SIGN({0})", "year": "YEAR({0})", "month_part": "DATE_PART('month', {0})", "extract_year": "EXTRACT(YEAR FROM {0})",
    "extract_epoch": "EXTRACT(EPOCH FROM {0})", "date_trunc": "DATE_TRUNC('month', {0})", "strftime": "STRFTIME({0}, '%Y-%m')", "last_day": "LAST_DAY({0})", "sum": "SUM({0})", "avg": "AVG({0})", "min": "MIN({0})",
    "max": "MAX({0})", "count": "COUNT({0})", "stddev": "STDDEV({0})", "bool_and": "BOOL_AND({0})", "string_agg": "STRING_AGG({0}, ',')", "win_sum": "SUM({0}) OVER ()", "win_lag": "LAG({0}) OVER (ORDER BY i)",
    "win_avg": "AVG({0}) OVER (PARTITION BY b)", "win_min": "MIN({0}) OVER (ORDER BY i)", "cast_int": "CAST({0} AS INT)", "cast_bigint": "CAST({0} AS BIGINT)", "cast_double": "CAST({0} AS DOUBLE)",
    "cast_dec": "CAST({0} AS DECIMAL(12, 3))", "cast_text": "CAST({0} AS VARCHAR)", "cast_date": "CAST({0} AS DATE)", "cast_ts": "CAST({0} AS TIMESTAMP)", "cast_bool": "CAST({0} AS BOOLEAN)",
    "try_cast_int": "TRY_CAST({0} AS INT)", "dayname": "DAYNAME({0})", "epoch": "EPOCH({0})", "bit_count": "BIT_COUNT({0})", "reverse": "REVERSE({0})", "hash": "HASH({0})", "median": "MEDIAN({0})",
    "mode": "MODE({0})", "first": "FIRST({0})", "list_len": "LEN([{0}])",
    "+": "{0} + {1}", "-": "{0} - {1}", "*": "{0} * {1}", "/": "{0} / {1}", "//": "{0} // {1}", "%": "{0} % {1}", "=": "{0} = {1}", "<>": "{0} <> {1}", "<": "{0} < {1}", ">=": "{0} >= {1}",
    "and": "{0} AND {1}", "or": "{0} OR {1}", "concat_op": "{0} || {1}", "concat": "CONCAT({0}, {1})", "coalesce": "COALESCE({0}, {1})", "nullif": "NULLIF({0}, {1})", "ifnull": "IFNULL({0}, {1})",
    "greatest": "GREATEST({0}, {1})", "least": "LEAST({0}, {1})", "power": "POWER({0}, {1})", "like": "{0} LIKE {1}", "datediff_day": "DATE_DIFF('day', {0}, {1})", "date_add": "{0} + INTERVAL 3 DAY + {1}",
    "date_sub": "{0} - {1} - INTERVAL 1 HOUR", "age": "AGE({0}, {1})", "strpos": "STRPOS({0}, {1})", "left": "LEFT({0}, {1})", "repeat": "REPEAT({0}, {1})", "starts_with": "STARTS_WITH({0}, {1})",
    "is_distinct": "{0} IS DISTINCT FROM {1}", "in2": "{0} IN ({1}, {1})", "mod_fn": "MOD({0}, {1})", "atan2": "ATAN2({0}, {1})", "round_n": "ROUND({0}, {1})", "date_part_arg": "DATE_PART({1}, {0})",
    "xor_fn": "XOR({0}, {1})", "bitand": "{0} & {1}", "shiftl": "{0} << {1}",
    "case": "CASE WHEN {0} THEN {1} ELSE {2} END", "between": "{0} BETWEEN {1} AND {2}", "if": "IF({0}, {1}, {2})", "substring": "SUBSTRING({0}, {1}, {2})", "replace": "REPLACE({0}, {1}, {2})",
    "lpad": "LPAD({0}, {1}, {2})", "coalesce3": "COALESCE({0}, {1}, {2})", "case_null": "CASE WHEN {0} THEN {1} WHEN NOT {0} THEN {2} END", "clamp": "GREATEST(LEAST({0}, {1}), {2})",
}
AGG = {"sum", "avg", "min", "max", "count", "stddev", "bool_and", "string_agg", "median", "mode", "first"}


def render(t):
    if "k" in t and t["k"] == "col":
        return t["v"]
    if "k" in t and t["k"] == "lit":
        return LITS[t["v"]]
    args = [render(a) for a in t["args"]]
    args = [f"({a})" if ("k" not in x or x["k"] == "app") else a for a, x in zip(args, t["args"])]
    return T[t["f"]].format(*args)


def has_agg(t):
    if "f" not in t:
        return False
    return t["f"] in AGG or any(has_agg(a) for a in t["args"])


def base(name):
    n = (name or "").upper().strip()
    n = re.sub(r"\(.*\)$", "", n).strip()
    return n


_con = None


def con():
    global _con
    if _con is None:
        import duckdb

        _con = duckdb.connect()
        _con.execute("SET threads = 1")
        _con.execute("CREATE TABLE t (" + ", ".join(f"{k} {v}" for k, v in COLS.items()) + ")")
        _con.execute(f"INSERT INTO t VALUES {ROW}")
    return _con


def engine_type(expr, agg):
    try:
        rel = con().sql(f"SELECT {expr} AS c FROM t")
        ty = str(rel.types[0])
        rel.fetchall()
        return ty
    except Exception as e:  # noqa: BLE001
        return "!" + type(e).__name__


def infer(expr):
    import sqlglot
    from sqlglot.optimizer.annotate_types import annotate_types
    from sqlglot.optimizer.qualify import qualify

    tree = qualify(sqlglot.parse_one(f"SELECT {expr} AS c FROM t", read="duckdb"), schema={"t": COLS}, dialect="duckdb")
    before = tree.sql("duckdb")
    ann = annotate_types(tree, schema={"t": COLS}, dialect="duckdb")
    after = ann.sql("duckdb")
    sel = ann.selects[0]
    return (sel.type.sql("duckdb") if sel.type else "UNKNOWN"), before == after


def _chunk(terms):
    import sys

    sys.path.insert(0, os.environ.get("VERIF_REPO", "/repo"))
    import logging

    logging.disable(logging.CRITICAL)
    out = []
    for t in terms:
        expr = render(t)
        eng = engine_type(expr, has_agg(t))
        if eng.startswith("!"):
            out.append({"skip": eng, "t": t})
            continue
        try:
            inf, same = infer(expr)
        except Exception as e:  # noqa: BLE001 - an annotator crash on an expression the engine accepts
            out.append({"inferred": "!" + type(e).__name__, "engine": base(eng), "sql_same": True, "meta": {"t": t, "expr": expr, "inferred_full": str(e)[:200], "engine_full": eng, "args": []}})
            continue
        argt = []
        for a in t["args"]:
            if "k" in a and a["k"] == "lit":
                argt.append("lit:" + a["v"])
            else:
                argt.append(base(engine_type(render(a), False) if not has_agg(a) else engine_type(render(a), True)))
        out.append({"inferred": base(inf), "engine": base(eng), "sql_same": same, "meta": {"t": t, "expr": expr, "inferred_full": inf, "engine_full": eng, "args": argt}})
    return out


CLASSES = {}


def klass(n):
    if n.startswith("lit:"):
        return n
    for cls, names in (("integer", "TINYINT SMALLINT INT INTEGER BIGINT HUGEINT UTINYINT USMALLINT UINTEGER UBIGINT UHUGEINT"), ("real", "DOUBLE FLOAT REAL DECIMAL NUMERIC"), ("boolean", "BOOLEAN"),
                       ("text", "VARCHAR TEXT CHAR STRING"), ("date", "DATE"), ("timestamp", "TIMESTAMP DATETIME TIMESTAMPTZ TIMESTAMP_S TIMESTAMP_MS TIMESTAMP_NS"), ("interval", "INTERVAL"), ("unknown", 'UNKNOWN NULL "NULL"')):
        if n in names.split():
            return cls
    if n == "TIMESTAMP WITH TIME ZONE":
        return "timestamp"
    return "other:" + n


MERGE = {"case": 1, "case_null": 1, "if": 1, "coalesce": 0, "coalesce3": 0, "ifnull": 0, "greatest": 0, "least": 0, "clamp": 0}
LITCLASS = {"lit:int": "integer", "lit:float": "real", "lit:true": "boolean", "lit:date": "date", "lit:ts": "timestamp", "lit:str": "strlit", "lit:null": "null"}


def family(f):
    """Forms typed by one rule of the annotator (the common type of their value arguments) share a key."""
    return "merge" if f in MERGE else f


def argkey(f, args):
    ks = [LITCLASS.get(klass(a), klass(a)) for a in args]
    if f in MERGE:
        return sorted(set(ks[MERGE[f]:]))
    return ks


def run(ctx):
    ctx.assumptions += [
        "type classes are the partition of type names in Types.tla; an inferred UNKNOWN / NULL makes no claim",
        "the engine's type is the result type DuckDB reports for SELECT <expr> FROM t on a one-row table, after the row has been fetched (the expression evaluates)",
        "expressions DuckDB rejects are skipped",
    ]
    ctx.cov["rule"] = (
        "terms emitted by TLC from Types.tla: every unary and binary form over every atom (10 typed columns, 10 literals), ternary forms over restricted conditions, and depth-2 compositions drawn with "
        "RandomSubset; distinct by rendered SQL; non-trivial = DuckDB accepts the expression and the annotator answers something other than UNKNOWN"
    )
    terms = {}

    def gen(focus, k, seed, what):
        cfg = os.path.join(ctx.work, f"types_{focus}.cfg")
        with open(cfg, "w") as f:
            f.write(f'CONSTANTS\n  Focus = "{focus}"\n  K = {k}\nINIT Init\nNEXT Next\nINVARIANT Emit\n')
        res = tlc.run("Types", cfg, ctx.work, workers=8, timeout_s=900, seed=seed, allow_violation=False)
        ctx.model(res, "Types", cfg, what)
        for p in res.printed:
            t = p["t"]
            terms.setdefault(render(t), t)

    gen("unary", 1, 1, "all unary forms x atoms")
    gen("binary", 1, 1, "all binary forms x atoms x atoms")
    gen("ternary", 1, 1, "ternary forms x restricted first argument x atoms x atoms")
    n1 = len(terms)
    # six fixed draws; thorough takes all of them, quick the one selected by the seed (so quick explores a subset of thorough)
    for r in (range(6) if ctx.thorough else [ctx.seed % 6]):
        gen(f"deep", 14, 101 + r, f"depth-2 compositions drawn by TLC (RandomSubset, draw {r})")
    # a bare NULL literal has none of the column types the property quantifies over; it is kept where it is idiomatic (CASE / COALESCE / NULLIF families)
    def null_operand(t):
        return t["f"] not in MERGE and t["f"] != "nullif" and any(a.get("k") == "lit" and a.get("v") == "null" for a in t["args"])

    work = [terms[k] for k in sorted(terms) if not null_operand(terms[k])]
    chunks = [work[i::64] for i in range(64)]
    cases, skipped = [], {}
    with ProcessPoolExecutor(max_workers=16) as ex:
        for o in ex.map(_chunk, [c for c in chunks if c]):
            for c in o:
                if "skip" in c:
                    skipped[c["skip"]] = skipped.get(c["skip"], 0) + 1
                else:
                    cases.append(c)
    if len(cases) < 1000:
        raise MachineryError(f"only {len(cases)} expressions were accepted by DuckDB; skipped {skipped}")
    verdicts = judge(ctx, "TypeTrace", cases, "types", per_shard=4000, cfg_text='CONSTANTS\n  Focus = "unary"\n  K = 1\nINIT TInit\nNEXT TNext\nINVARIANT Verdict\n')
    ctx.count(len(cases), traces=len(cases))
    stats = {}
    # depth-1 failures first: a depth-2 term whose failing argument already fails alone is the same defect
    failing_exprs = set()
    for c in cases:
        if verdicts[c["id"]][0] != "OK":
            failing_exprs.add(c["meta"]["expr"])
    for c in cases:
        v = verdicts[c["id"]]
        stats[v[0]] = stats.get(v[0], 0) + 1
        m = c["meta"]
        if c["inferred"] not in ("UNKNOWN", "NULL"):
            ctx.nontrivial(m["expr"])
        if v[0] == "OK":
            continue
        t = m["t"]
        inner_bad = [a for a in t["args"] if ("k" not in a or a["k"] == "app") and render(a) in failing_exprs]
        if v[0] == "SqlUnchanged":
            key = f"SqlUnchanged:{t['f']}"
        elif inner_bad:
            a = inner_bad[0]
            key = None  # reported through the inner term when it is in this run; otherwise below
            if not any(cc["meta"]["expr"] == render(a) for cc in cases):
                key = f"SameClass:{a['f']}(...):nested"
        else:
            key = f"SameClass:{family(t['f'])}({','.join(argkey(t['f'], m['args']))}):{v[1]}!={v[2]}"
        if key:
            ctx.violation(key, f"{v[0]}: {m['expr']!r}: annotate_types infers {m['inferred_full']} [{v[1]}], DuckDB produces {m['engine_full']} [{v[2]}] (argument types {m['args']})", {"t": t})
    ctx.notes.update({"verdicts": stats, "skipped_by_engine": skipped, "depth1_terms": n1, "terms": len(terms), "evaluated": len(cases)})
    for c in cases[:: max(1, len(cases) // 3)][:3]:
        ctx.sample({"expr": c["meta"]["expr"], "inferred": c["meta"]["inferred_full"], "engine": c["meta"]["engine_full"]})
    ctx.cov["exhaustive"] = ctx.thorough


def replay(ctx, payload):
    t = payload["payload"]["t"]
    cs = [c for c in _chunk([t]) if "skip" not in c]
    if not cs:
        return None
    v = judge(ctx, "TypeTrace", cs, "replay", cfg_text='CONSTANTS\n  Focus = "unary"\n  K = 1\nINIT TInit\nNEXT TNext\nINVARIANT Verdict\n')[cs[0]["id"]]
    return None if v[0] == "OK" else f"{v[0]}: {cs[0]['meta']['expr']!r} inferred {cs[0]['meta']['inferred_full']} engine {cs[0]['meta']['engine_full']}"
