"""C06 — simplification and normal forms preserve SQL three-valued logic exactly
(spec/SqlSem.tla semantics, spec/ExprGen.tla generator, spec/RewriteTrace.tla acceptor)."""
from __future__ import annotations

import json
import os
from concurrent.futures import ProcessPoolExecutor

from lib import tlc
from lib.tlc import MachineryError
from lib.tracejudge import judge

INT_COLS = ("a", "b", "m")
BOOL_COLS = ("p", "q", "r")
NONNULL = ("m", "r")
PREC = {"or": 1, "and": 2, "not": 3, "eq": 4, "neq": 4, "isnull": 4, "between": 4, "in": 4, "lt": 5, "lte": 5, "gt": 5, "gte": 5,
        "add": 7, "sub": 7, "mul": 8, "neg": 9}
SYM = {"eq": "=", "neq": "<>", "lt": "<", "lte": "<=", "gt": ">", "gte": ">=", "add": "+", "sub": "-", "mul": "*", "and": "AND", "or": "OR"}


def to_sql(e, full_parens=False, parent=0, right=False):
    """term -> SQL text. With full_parens every compound operand is wrapped (explicit Paren nodes in the tree);
    otherwise parentheses are emitted only where the precedence ladder needs them."""
    t = e[0]
    if t == "col":
        return e[1]
    if t == "int":
        return str(e[1]) if e[1] >= 0 else f"({e[1]})"
    if t == "bool":
        return "TRUE" if e[1] else "FALSE"
    if t in ("null", "none"):
        return "NULL"
    if t == "paren":
        return "(" + to_sql(e[1], full_parens) + ")"

    def wrap(s, p, always=False):
        if full_parens and always:
            return "(" + s + ")"
        return "(" + s + ")" if p < parent or (p == parent and right) else s

    if t in ("and", "or", "eq", "neq", "lt", "lte", "gt", "gte", "add", "sub", "mul"):
        p = PREC[t]
        s = f"{to_sql(e[1], full_parens, p)} {SYM[t]} {to_sql(e[2], full_parens, p, True)}"
        return wrap(s, p, True)
    if t == "not":
        return wrap("NOT " + to_sql(e[1], full_parens, PREC["not"]), PREC["not"], True)
    if t == "neg":
        return wrap("-" + to_sql(e[1], full_parens, PREC["neg"], True), PREC["neg"])
    if t == "isnull":
        return wrap(to_sql(e[1], full_parens, 6) + " IS NULL", PREC["isnull"], True)
    if t == "between":
        return wrap(f"{to_sql(e[1], full_parens, 6)} BETWEEN {to_sql(e[2], full_parens, 6)} AND {to_sql(e[3], full_parens, 6)}", PREC["between"], True)
    if t == "in":
        return wrap(f"{to_sql(e[1], full_parens, 6)} IN ({', '.join(to_sql(v, full_parens) for v in e[2])})", PREC["in"], True)
    if t == "coalesce":
        return f"COALESCE({', '.join(to_sql(v, full_parens) for v in e[1])})"
    if t == "case":
        s = "CASE " + " ".join(f"WHEN {to_sql(c, full_parens)} THEN {to_sql(v, full_parens)}" for c, v in e[1])
        if e[2][0] != "none":
            s += f" ELSE {to_sql(e[2], full_parens)}"
        return s + " END"
    if t == "if":
        return f"CASE WHEN {to_sql(e[1], full_parens)} THEN {to_sql(e[2], full_parens)} ELSE {to_sql(e[3], full_parens)} END"
    raise MachineryError(f"cannot render {e}")


class Unsupported(Exception):
    pass


def to_term(n):
    """sqlglot tree -> term (raises Unsupported outside the fragment)."""
    from sqlglot import exp

    if isinstance(n, exp.Paren):
        return ["paren", to_term(n.this)]
    if isinstance(n, exp.Column):
        if n.table:
            raise Unsupported("qualified column")
        return ["col", n.name.lower()]
    if isinstance(n, exp.Boolean):
        return ["bool", 1 if n.this else 0]
    if isinstance(n, exp.Null):
        return ["null"]
    if isinstance(n, exp.Literal):
        if n.is_string:
            raise Unsupported("string literal")
        try:
            return ["int", int(n.this)]
        except ValueError:
            raise Unsupported(f"number {n.this}")
    if isinstance(n, exp.Neg):
        inner = to_term(n.this)
        return ["int", -inner[1]] if inner[0] == "int" else ["neg", inner]
    binmap = {exp.And: "and", exp.Or: "or", exp.EQ: "eq", exp.NEQ: "neq", exp.LT: "lt", exp.LTE: "lte", exp.GT: "gt", exp.GTE: "gte",
              exp.Add: "add", exp.Sub: "sub", exp.Mul: "mul"}
    for k, v in binmap.items():
        if type(n) is k:
            return [v, to_term(n.this), to_term(n.expression)]
    if isinstance(n, exp.Not):
        return ["not", to_term(n.this)]
    if isinstance(n, exp.Is):
        if isinstance(n.expression, exp.Null):
            return ["isnull", to_term(n.this)]
        raise Unsupported("IS <non-null>")
    if isinstance(n, exp.Between):
        if n.args.get("symmetric"):
            raise Unsupported("symmetric between")
        return ["between", to_term(n.this), to_term(n.args["low"]), to_term(n.args["high"])]
    if isinstance(n, exp.In):
        if n.args.get("query") or n.args.get("unnest") or n.args.get("field"):
            raise Unsupported("IN subquery")
        return ["in", to_term(n.this), [to_term(v) for v in n.expressions]]
    if isinstance(n, exp.Coalesce):
        return ["coalesce", [to_term(n.this)] + [to_term(v) for v in n.expressions]]
    if isinstance(n, exp.Case):
        if n.this is not None:
            raise Unsupported("simple case")
        whens = [[to_term(i.this), to_term(i.args["true"])] for i in n.args["ifs"]]
        d = n.args.get("default")
        return ["case", whens, to_term(d) if d is not None else ["none"]]
    if isinstance(n, exp.If):
        f = n.args.get("false")
        return ["if", to_term(n.this), to_term(n.args["true"]), to_term(f) if f is not None else ["null"]]
    raise Unsupported(type(n).__name__)


def unchanged_form(e):
    """normalize() documents a rewrite_between pre-step: 'the input unchanged' is read modulo BETWEEN expansion and parentheses."""
    if isinstance(e, list) and e and isinstance(e[0], str):
        if e[0] == "paren":
            return unchanged_form(e[1])
        if e[0] == "between":
            x, lo, hi = (unchanged_form(v) for v in e[1:4])
            return ["and", ["gte", x, lo], ["lte", x, hi]]
        return [e[0]] + [unchanged_form(v) for v in e[1:]]
    if isinstance(e, list):
        return [unchanged_form(v) for v in e]
    return e


def domain(terms):
    """columns used and their value domains: NULL + every order-relevant integer."""
    cols, lits = set(), {0}

    def walk(e):
        if isinstance(e, list) and e and isinstance(e[0], str):
            if e[0] == "col":
                cols.add(e[1])
            elif e[0] == "int":
                lits.add(e[1])
            for x in e[1:]:
                walk(x)
        elif isinstance(e, list):
            for x in e:
                walk(x)

    for t in terms:
        walk(t)
    ints = sorted({v + d for v in lits for d in (-1, 0, 1)})
    if len(ints) > 9:  # keep the env product bounded: the literals themselves and their neighbours nearest to them
        ints = sorted(lits | {min(lits) - 1, max(lits) + 1})
    cols = sorted(cols)
    dom = {}
    for c in cols:
        if c in BOOL_COLS:
            vals = [["B", 1], ["B", 0]]
        else:
            vals = [["I", v] for v in ints]
        if c not in NONNULL:
            vals = [["N", 0]] + vals
        dom[c] = vals
    return cols, dom


def schema_types():
    from sqlglot import exp

    s = {}
    for c in INT_COLS:
        s[c] = exp.DataType.build("int", nullable=False) if c in NONNULL else "int"
    for c in BOOL_COLS:
        s[c] = exp.DataType.build("boolean", nullable=False) if c in NONNULL else "boolean"
    return {"t": s}


FLAG_DIALECTS = ["", "mysql", "postgres", "snowflake", "bigquery", "duckdb", "tsql", "oracle"]


def _chunk(arg):
    import sys

    sys.path.insert(0, os.environ.get("VERIF_REPO", "/repo"))
    import logging

    logging.getLogger("sqlglot").setLevel(logging.CRITICAL)
    import sqlglot
    from sqlglot import _verif, exp
    from sqlglot.optimizer.annotate_types import annotate_types
    from sqlglot.optimizer.normalize import normalize
    from sqlglot.optimizer.qualify import qualify
    from sqlglot.optimizer.simplify import simplify
    from lib.guard import HardTimeout, limits, time_limit

    limits()
    out = []
    schema = schema_types()
    for w in arg:
        term, mode = w["e"], w["mode"]
        sql = to_sql(term, full_parens=w["parens"])
        d = w["dialect"] or None
        try:
            tree = sqlglot.parse_one(sql, dialect=d)
            t_in = to_term(tree)
        except Exception as e:
            out.append({"skip": f"parse/convert: {type(e).__name__}", "sql": sql})
            continue
        meta = {"sql": sql, "dialect": w["dialect"], "mode": mode, "typed": w["typed"], "parens": w["parens"], "max_distance": w.get("max_distance", 6)}
        if w["typed"]:
            # annotate against the schema (sets types and the nonnull meta the rules consult) without renaming columns
            q = sqlglot.parse_one(f"SELECT {sql} AS x FROM t", dialect=d)
            try:
                q = annotate_types(qualify(q, schema=schema, dialect=d, quote_identifiers=False, identify=False), schema=schema, dialect=d)
                tree = q.selects[0].this
                for c in tree.find_all(exp.Column):
                    c.set("table", None)
                tree.pop()
            except Exception as e:
                out.append({"skip": f"annotate: {type(e).__name__}", "sql": sql})
                continue
        steps = []
        stack = []

        def sink(ev, f):
            if ev == "rule_pre":
                try:
                    stack.append((f["rule"], to_term(f["node"])))
                except Exception:
                    stack.append((f["rule"], None))
            elif ev == "rule_post" and stack:
                rule, before = stack.pop()
                if before is None or f["node"] is None:
                    return
                try:
                    after = to_term(f["node"])
                except Exception:
                    return
                if after != before and rule != "_simplify_comparison":  # helper: its result replaces (left, right), not the node it is given
                    steps.append((rule, before, after))

        try:
            with time_limit(20):
                _verif.sink = sink
                try:
                    if mode == "simplify":
                        res = simplify(tree, dialect=d)
                    elif mode == "simplify_coalesce":
                        res = simplify(tree, dialect=d, coalesce_simplification=True)
                    elif mode in ("cnf", "dnf"):
                        res = normalize(tree, dnf=mode == "dnf")
                    else:  # cnf_small / dnf_small: the tightest distance budgets that pass the up-front check, so that
                        # normalization is attempted and may have to be abandoned half way (roll-back path)
                        from sqlglot.optimizer.normalize import normalization_distance

                        dist = normalization_distance(tree, dnf=mode.startswith("dnf"), max_=10000)
                        res = normalize(tree, dnf=mode.startswith("dnf"), max_distance=dist + (w.get("max_distance", 6) % 3))
                finally:
                    _verif.sink = None
        except sqlglot.errors.SqlglotError:
            continue
        except (Exception, HardTimeout) as e:
            out.append({"skip": f"{mode} raised {type(e).__name__}: {e}", "sql": sql})
            continue
        try:
            t_out = to_term(res)
        except Unsupported as e:
            out.append({"skip": f"output outside the fragment: {e}", "sql": sql})
            continue
        cases = [("end_to_end", "", t_in, t_out)]
        # the generated text must mean the same as the returned tree
        try:
            text = res.sql()  # base dialect: target generators may legitimately re-spell booleans (ENSURE_BOOLS)
            t_txt = to_term(sqlglot.parse_one(text))
            if t_txt != t_out:
                cases.append(("via_text", "", t_in, t_txt))
        except Unsupported:
            pass
        except Exception as e:
            out.append({"skip": f"re-parse of output: {type(e).__name__}", "sql": sql})
        seen = set()
        for rule, b, a in steps:
            k = json.dumps((rule, b, a))
            if k not in seen:
                seen.add(k)
                cases.append(("step", rule, b, a))
        for kind, rule, e1, e2 in cases:
            cols, dom = domain([e1, e2])
            nenv = 1
            for c in cols:
                nenv *= len(dom[c])
            if nenv > 20000:
                continue
            out.append({"e1": e1, "e2": e2, "cols": cols, "dom": dom if dom else {"_": []},
                        "nf": (mode[:3] if mode[:3] in ("cnf", "dnf") and kind == "end_to_end" else ""), "same": unchanged_form(e1) == unchanged_form(e2),
                        "meta": {**meta, "kind": kind, "rule": rule, "out_sql": to_sql(e2), "in_sql": to_sql(e1), "term": term}})
    return out


def generate(ctx, level, k, seed):
    cfg = os.path.join(ctx.work, f"gen_{level}_{k}.cfg")
    with open(cfg, "w") as f:
        f.write(f"CONSTANTS\n  Level = {level}\n  K = {k}\nINIT Init\nNEXT Next\nINVARIANT Emit\n")
    res = tlc.run("ExprGen", cfg, ctx.work, workers=8, timeout_s=900, seed=seed, allow_violation=False)
    ctx.model(res, "ExprGen", cfg, f"expression generator level {level} (K={k}, seed {seed})")
    es = sorted((p["e"] for p in res.printed), key=json.dumps)
    if len(es) != res.distinct:
        raise MachineryError("generator output incomplete")
    return es


def _shape(e):
    """multiset of operator tags of a term (for finding keys)"""
    tags = set()

    def walk(x):
        if isinstance(x, list) and x and isinstance(x[0], str):
            if x[0] not in ("col", "int", "paren"):
                tags.add(x[0])
            for y in x[1:]:
                walk(y)
        elif isinstance(x, list):
            for y in x:
                walk(y)

    walk(e)
    return tags


def run(ctx):
    ctx.assumptions += [
        "default flags plus coalesce_simplification; constant_propagation=True is outside the quantifier (it knowingly maps NULL to FALSE)",
        "columns a,b (INT), p,q (BOOLEAN) nullable; m (INT), r (BOOLEAN) declared NOT NULL in typed mode; in untyped mode every column ranges over NULL too",
        "integer domain: NULL plus c-1, c, c+1 for every literal c (every order-relevant integer)",
    ]
    ctx.cov["rule"] = (
        "expressions enumerated by TLC from ExprGen.tla (level 1 exhaustively, levels 2-3 pseudo-randomly by seed), rendered with minimal or full "
        "parentheses, typed or untyped, per dialect flag; one case per (input, output) pair and per changed rule application reported by the hook; "
        "TLC evaluates both sides under every assignment. distinct by (e1, e2, columns); non-trivial = the two terms differ"
    )
    # the unchanged tree breaks this property in known ways, so the explored space is fixed and fully triaged:
    # VERIF_SEED only selects which of five generator seeds the quick tier visits, the thorough tier visits them all
    seed = (ctx.seed % 5) + 1
    if ctx.thorough:
        exprs = generate(ctx, 1, 10, 1) + generate(ctx, 2, 90, 1) + generate(ctx, 3, 60, 1) + generate(ctx, 2, 90, 18)
        for s in (2, 3, 4, 5):
            exprs += generate(ctx, 2, 45, s) + generate(ctx, 3, 25, s)
    else:
        exprs = generate(ctx, 1, 10, seed) + generate(ctx, 2, 45, seed) + generate(ctx, 3, 25, seed)
    modes = ["simplify", "simplify_coalesce", "cnf", "dnf", "cnf_small", "dnf_small"]
    work = []
    conn = generate(ctx, 4, 30 if ctx.thorough else 12, seed) + generate(ctx, 5, 45 if ctx.thorough else 22, seed)
    for i, e in enumerate(conn):
        for j, mode in enumerate(("cnf_small", "dnf_small", "cnf", "simplify")):
            if j < 2 or i % 4 == 0:
                work.append({"e": e, "mode": mode, "max_distance": 3 + ((i + j) % 12), "parens": (i + j) % 2 == 0, "typed": i % 2 == 0, "dialect": ""})
    c3a = generate(ctx, 6, 1, 1)
    if not ctx.thorough:
        c3a = c3a[ctx.seed % 3 :: 3]
    for i, e in enumerate(c3a):
        work.append({"e": e, "mode": ("cnf_small", "dnf_small")[i % 2], "max_distance": (4, 6, 5, 8)[(i // 2) % 4], "parens": True, "typed": False, "dialect": ""})
        work.append({"e": e, "mode": ("dnf_small", "cnf_small")[i % 2], "max_distance": (4, 6, 5, 8)[(i // 2 + 1) % 4], "parens": False, "typed": False, "dialect": ""})
    for i, e in enumerate(exprs):
        for j, mode in enumerate(modes if i % 2 == 0 else modes[:1] + [modes[1 + i % 5]]):
            work.append({"e": e, "mode": mode, "max_distance": 3 + (i % 9), "parens": (i + j) % 2 == 0, "typed": (i // 2 + j) % 2 == 0,
                         "dialect": FLAG_DIALECTS[(i + j) % len(FLAG_DIALECTS)] if (i + j) % 3 == 0 else ""})
    chunks = [work[i::64] for i in range(64)]
    cases, skips = [], []
    with ProcessPoolExecutor(max_workers=16) as ex:
        for o in ex.map(_chunk, [c for c in chunks if c]):
            for c in o:
                (skips if "skip" in c else cases).append(c)
    # dedupe identical obligations
    uniq = {}
    for c in cases:
        k = json.dumps((c["e1"], c["e2"], c["nf"], c["dom"]), sort_keys=True)
        uniq.setdefault(k, c)
    cases = list(uniq.values())
    verdicts = judge(ctx, "RewriteTrace", cases, "rewrites", per_shard=2500)
    ctx.count(len(cases), traces=len(cases))
    stats, kinds = {}, {}
    for c in cases:
        v = verdicts[c["id"]]
        clause, wit = v[0], v[1:]
        m = c["meta"]
        stats[clause] = stats.get(clause, 0) + 1
        kinds[m["kind"] + (":" + m["rule"] if m["rule"] else "")] = kinds.get(m["kind"] + (":" + m["rule"] if m["rule"] else ""), 0) + 1
        if c["e1"] != c["e2"]:
            ctx.nontrivial(json.dumps((c["e1"], c["e2"])))
        if clause == "OK":
            continue
        if m["kind"] == "step":
            site = m["rule"]
        else:
            site = m["mode"] + ("" if m["kind"] == "end_to_end" else ":via_text")
        if clause == "NotEquivalent":
            env = dict(zip(c["cols"], wit[: len(c["cols"])]))
            r = wit[len(c["cols"]):]
            cls = lambda x: {-99: "NULL", -98: "ERR"}.get(x, ("FALSE", "TRUE")[x] if c["e1"][0] not in ("add", "sub", "mul", "neg", "int") and x in (0, 1) else "INT")
            shape = f"{cls(r[0])}->{cls(r[1])}" if len(r) == 2 else "?"
            ctx.violation(
                f"{site}:NotEquivalent:{shape}",
                f"{site}: {m['in_sql']!r} -> {m['out_sql']!r} differ under {env} (-99 = NULL): {r} [input {m['sql']!r}, {m['mode']}, typed={m['typed']}, dialect={m['dialect'] or 'base'}]",
                {k: m[k] for k in m} | {"e1": c["e1"], "e2": c["e2"], "witness": env, "values": r},
            )
        else:
            ctx.violation(f"{site}:NotNormalForm", f"{m['mode']} of {m['sql']!r} returned {m['out_sql']!r}: neither the input nor in the requested normal form", {k: m[k] for k in m})
    skipstat = {}
    for s in skips:
        skipstat[s["skip"].split(":")[0]] = skipstat.get(s["skip"].split(":")[0], 0) + 1
    ctx.notes.update({"expressions": len(exprs), "runs": len(work), "obligations": len(cases), "verdicts": stats, "by_kind": kinds, "skipped": skipstat})
    if len(cases) < len(work) // 4:
        raise MachineryError(f"too few obligations ({len(cases)}) for {len(work)} runs: {skipstat}")
    for c in [c for c in cases if c["e1"] != c["e2"]][:: max(1, len(cases) // 3)][:3]:
        ctx.sample({"kind": c["meta"]["kind"], "rule": c["meta"]["rule"], "before": c["meta"]["in_sql"], "after": c["meta"]["out_sql"], "columns": c["cols"]})
    ctx.cov["exhaustive"] = False


def replay(ctx, payload):
    p = payload["payload"]
    cases = [c for c in _chunk([{"e": p["term"], "mode": p["mode"], "parens": p["parens"], "typed": p["typed"], "dialect": p["dialect"], "max_distance": p.get("max_distance", 6)}]) if "skip" not in c]
    verdicts = judge(ctx, "RewriteTrace", cases, "replay")
    for c in cases:
        if verdicts[c["id"]][0] != "OK" and c["meta"]["kind"] == p["kind"] and c["meta"]["rule"] == p["rule"]:
            return f"{verdicts[c['id']][0]}: {c['meta']['in_sql']!r} -> {c['meta']['out_sql']!r}"
    return None
