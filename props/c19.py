"""C19 - concurrent first use gives the single-threaded answers; lazy loading completes exactly once; nothing hangs.

  * LazyImport.tla (PlusCal): threads x {package attribute, Dialect.get, generator construction, plain import, optimizer export};
    package RLocks, per-module import locks, registry, dispatch cache.  TLC checks NoDeadlock, ExactlyOnce, NoPartial,
    RegisteredImpliesBuilt, LoadedImpliesRegistered, PublishedImpliesFull, LockDiscipline over all interleavings.
    The model's constant LazyInBody (module bodies that request the package lock while holding their import lock) is
    MEASURED on the real code by cold-process probes, so a re-introduced lock-order cycle makes TLC fail with a schedule,
    which is then replayed on the real code (forced schedule) before it is reported.
  * spec -> code: every single-preemption schedule of two real threads at hook-event and source-line granularity inside
    the first-use code (thread A paused at a point, thread B runs to completion or until it blocks, then A, then B), each in a
    cold interpreter (lib/c19_child.py), plus stress runs (8 threads, switch interval 1e-6).
  * code -> spec: every recorded run (hook events + registry / dispatch-cache snapshots) is judged by ImportTrace.tla.
"""
from __future__ import annotations

import json
import os
import subprocess
import zlib
from concurrent.futures import ThreadPoolExecutor

from lib import tlc
from lib.harness import REPO
from lib.tlc import MachineryError
from lib.tracejudge import judge

CHILD = os.path.join(os.path.dirname(os.path.dirname(os.path.abspath(__file__))), "lib", "c19_child.py")
PY = "/venv/bin/python"
SQL = 'SELECT TRY_CAST(a AS INT) AS x, TRIM(b) AS "y z", c FROM t WHERE d IN (SELECT e FROM u) AND f = \'s\' ORDER BY 1'
OPT_SQL = "SELECT a FROM (SELECT a, b FROM t) AS s WHERE b > 1 + 1"
KINDS = ["get", "attr", "gen", "direct"]
ALWAYS = ["duckdb", "mysql", "tsql"]


def h(*xs):
    return zlib.crc32(json.dumps(xs, sort_keys=True).encode())


def dialect_classes():
    import sqlglot.dialects as d

    return {name.lower(): name for name in d.DIALECTS}


def child(job, timeout=120):
    job = {"repo": REPO, **job}
    env = {k: v for k, v in os.environ.items() if k != "PYTHONPATH"}
    env["PYTHONHASHSEED"] = "0"
    try:
        p = subprocess.run([PY, CHILD, json.dumps(job)], capture_output=True, text=True, timeout=timeout, env=env, cwd="/")
    except subprocess.TimeoutExpired:
        return {"results": {}, "events": [], "deadlock": True, "paused": None, "child_timeout": True}
    lines = [ln for ln in p.stdout.splitlines() if ln.startswith("{")]
    if not lines:
        raise MachineryError(f"c19 child produced no result (rc={p.returncode}): {p.stderr[-1500:]}")
    return json.loads(lines[-1])


def op(kind, m, classes):
    if kind in ("opt", "optdirect", "optattr"):
        return {"k": kind, "m": "", "cls": "", "sql": OPT_SQL}
    return {"k": kind, "m": m, "cls": classes[m], "sql": SQL}


def pmap(fn, items, workers=16):
    with ThreadPoolExecutor(max_workers=workers) as ex:
        return list(ex.map(fn, items))


def points(gates, frac, salt):
    """Preemption points [label, hit] chosen from a probe's gate histogram."""
    out = []
    for label, n in gates.items():
        if label == "start":
            continue
        hits = [1, 2, 3] if label.startswith("ev:") else [1]
        if n > 3:
            hits += [x for x in (10, 100, 400, 1000) if x <= n] + [n]
        for k in sorted(set(x for x in hits if x <= n)):
            if label.startswith("ev:") or h(salt, label, k) % frac == 0:
                out.append([label, k])
    return out


def run(ctx):
    ctx.assumptions += [
        "CPython 3.12 import system: a per-module import lock taken by import_module / the import statement, sys.modules holding a module from the moment its import starts",
        "schedules explored on the real code have at most one forced preemption of thread A (at every hook event and at every executed line of the first-use functions) plus whatever the OS adds in the stress runs; the TLA+ model covers all interleavings of its abstract steps",
        "the results of a call are compared with the same call run alone in a fresh interpreter",
    ]
    ctx.cov["rule"] = (
        "cold interpreters; scenario = (operation of thread A, operation of thread B, dialect, preemption point of A); operations: package attribute, Dialect.get, transpile by name, plain module import, "
        "lazy optimizer exports; distinct by the scenario tuple; non-trivial = thread B ran while thread A was inside its first use (paused before finishing)"
    )
    classes = dialect_classes()
    mods = sorted(classes)
    # ---------------------------------------------------------------- 1. measure the model's constants on the code
    probes = pmap(lambda m: child({"mode": "probe", "trace": False, "ops": {"A": op("get", m, classes)}}), mods)
    lazy, deps = [], {}
    for m, pr in zip(mods, probes):
        evs = [(e["e"], e["m"]) for e in pr["events"]]
        if ("load_begin", m) not in evs or ("load_end", m) not in evs:
            raise MachineryError(f"probe of Dialect.get({m!r}) shows no load_begin/load_end: {evs[:8]}")
        inside = evs[evs.index(("load_begin", m)): evs.index(("load_end", m))]
        if any(e == "attr_wait" for e, _ in inside):
            lazy.append(m)
        deps[m] = sorted({x for e, x in inside if e == "class_begin" and x != m})
    ctx.notes["measured"] = {"LazyInBody": lazy, "modules_with_dependencies": sum(1 for d in deps.values() if d)}
    # ---------------------------------------------------------------- 2. the model
    invs = "".join(f"INVARIANT {i}\n" for i in ("NoDeadlock", "ExactlyOnce", "NoPartial", "RegisteredImpliesBuilt", "LoadedImpliesRegistered", "PublishedImpliesFull", "LockDiscipline"))

    def cfg(name, threads, ops, variant, lazyset, view=False):
        p = os.path.join(ctx.work, name)
        with open(p, "w") as f:
            f.write(f'CONSTANTS\n  Threads = {threads}\n  Dialects = {{"d1", "d2"}}\n  Deps <- DepsC\n  LazyInBody = {lazyset}\n  OpsOf <- {ops}\n  Variant = "{variant}"\n  defaultInitValue = "dflt"\nSPECIFICATION Spec\n{invs}' + ("VIEW NoHist\n" if view else ""))
        return p

    lazyset = '{"d1"}' if lazy else "{}"
    c = cfg("lazy_code.cfg", '{"A", "B"}', "Ops2", "code", lazyset)
    res = tlc.run("MCLazy", c, ctx.work, workers=16, timeout_s=1200)
    ctx.model(res, "LazyImport", c, f"2 threads x all operations on 2 dialect modules (d2 imports d1) + optimizer exports, LazyInBody measured = {lazy or 'empty'}: 7 invariants over all interleavings")
    model_deadlock = "NoDeadlock" in res.violated
    if res.violated and not model_deadlock:
        raise MachineryError(f"LazyImport violates {res.violated} for the measured constants")
    if ctx.thorough:
        c3 = cfg("lazy_code3.cfg", '{"A", "B", "C"}', "Ops3", "code", lazyset.replace("d1", "d2"), view=True)
        r3 = tlc.run("MCLazy", c3, ctx.work, workers=16, timeout_s=3000)
        ctx.model(r3, "LazyImport", c3, "3 threads x {attr, get, gen} on one module + optimizer exports")
        model_deadlock |= "NoDeadlock" in r3.violated
    neg = {"early_register": "RegisteredImpliesBuilt", "publish_before_fill": "PublishedImpliesFull", "sysmodules_shortcut": "NoPartial"}
    for v, inv in neg.items():
        r = tlc.run("MCLazy", cfg(f"lazy_{v}.cfg", '{"A", "B"}', "Ops2", v, "{}"), ctx.work, workers=16, timeout_s=900)
        if inv not in r.violated:
            raise MachineryError(f"negative control {v}: {inv} not violated")
    r = tlc.run("MCLazy", cfg("lazy_lazy.cfg", '{"A", "B"}', "Ops2", "code", '{"d1"}'), ctx.work, workers=16, timeout_s=900)
    if "NoDeadlock" not in r.violated:
        raise MachineryError("negative control LazyInBody={d1}: NoDeadlock not violated")
    ctx.notes["negative_controls"] = "early_register, publish_before_fill, sysmodules_shortcut, LazyInBody={d1} each violate their invariant"
    # ---------------------------------------------------------------- 3. scenarios on the real code
    nd = len(mods) if ctx.thorough else 2
    chosen = list(ALWAYS)
    for m in sorted(mods, key=lambda x: h(ctx.seed, x)):
        if len(chosen) >= (len(mods) if ctx.thorough else len(ALWAYS) + nd):
            break
        if m not in chosen:
            chosen.append(m)
    base_jobs = {}
    for m in chosen:
        for k in KINDS:
            base_jobs[(k, m)] = op(k, m, classes)
    for k in ("opt", "optdirect", "optattr"):
        base_jobs[(k, "")] = op(k, "", classes)
    keys = list(base_jobs)
    base = dict(zip(keys, pmap(lambda k: child({"mode": "alone", "ops": {"A": base_jobs[k]}}), keys)))
    for k, b in base.items():
        if b["deadlock"] or "A" not in b["results"]:
            raise MachineryError(f"baseline {k} did not finish")
    # transpile results must not depend on how the dialect was reached
    scen = []
    for m in chosen:
        for ka in KINDS:
            for kb in KINDS:
                scen.append((ka, kb, m))
    for ka, kb in (("opt", "opt"), ("optdirect", "opt"), ("opt", "optdirect"), ("optattr", "opt"), ("optdirect", "optattr"), ("opt", "optattr")):
        scen.append((ka, kb, ""))
    frac = 6 if ctx.thorough else 12
    probe_keys = sorted({(ka, m) for ka, _, m in scen})
    probe = dict(zip(probe_keys, pmap(lambda k: child({"mode": "probe", "trace": True, "ops": {"A": base_jobs[k]}}), probe_keys)))
    jobs = []
    for ka, kb, m in scen:
        pts = points(probe[(ka, m)]["gates"], frac, (ka, kb, m, ctx.seed))
        if not ctx.thorough and m not in ALWAYS and m:
            pts = [p for p in pts if p[0].startswith("ev:") or h("s", ka, kb, m, p) % 2 == 0]
        for p in pts:
            jobs.append({"mode": "preempt", "trace": not p[0].startswith("ev:"), "until": p, "ops": {"A": base_jobs[(ka, m)], "B": base_jobs[(kb, m)]}, "meta": (ka, kb, m)})
    # forced replay of the model's deadlock schedule for every measured module
    for m in lazy:
        jobs.append({"mode": "preempt", "trace": False, "until": ["ev:attr_wait:dialect", 1], "deadline": 6, "ops": {"A": op("get", m, classes), "B": op("attr", m, classes)}, "meta": ("get", "attr", m)})
    outs = pmap(lambda j: child({k: v for k, v in j.items() if k != "meta"}), jobs)
    # stress
    nstress = 120 if ctx.thorough else 12
    sjobs = []
    for s in range(nstress):
        ops = {}
        pool = sorted(mods, key=lambda x: h(ctx.seed, s, x))[:3]
        for i, t in enumerate("ABCDEFGH"):
            k = (KINDS + ["opt", "optdirect", "optattr"])[h(ctx.seed, s, t) % 7]
            ops[t] = op(k, pool[i % len(pool)], classes)
        sjobs.append({"mode": "stress", "ops": ops, "meta": ("stress", s)})
    need = sorted({(o["k"], o["m"]) for j in sjobs for o in j["ops"].values()} - set(base))
    base.update(zip(need, pmap(lambda k: child({"mode": "alone", "ops": {"A": op(k[0], k[1], classes)}}), need)))
    souts = pmap(lambda j: child({k: v for k, v in j.items() if k != "meta"}), sjobs, workers=4)
    # ---------------------------------------------------------------- 4. judge
    cases = []
    for j, o in list(zip(jobs, outs)) + list(zip(sjobs, souts)):
        same, diffs = True, []
        for t, oo in j["ops"].items():
            want = base[(oo["k"], oo["m"])]["results"]["A"]
            got = o["results"].get(t)
            if got != want:
                same = False
                diffs.append({"thread": t, "op": oo["k"], "module": oo["m"], "alone": want, "concurrent": got})
        cases.append({"events": [{k: e[k] for k in ("t", "e", "m", "regs", "pubs")} for e in o["events"]], "deadlock": bool(o["deadlock"]), "same": same,
                      "meta": {"job": {k: v for k, v in j.items() if k != "meta"}, "scenario": j["meta"], "diffs": diffs[:2], "stacks": o.get("stacks"), "paused": o.get("paused")}})
    verdicts = judge(ctx, "ImportTrace", cases, "runs", per_shard=1500)
    ctx.count(len(cases), traces=len(cases))
    stats = {}
    for c in cases:
        v = verdicts[c["id"]][0]
        stats[v] = stats.get(v, 0) + 1
        m = c["meta"]
        if m["paused"] or m["scenario"][0] == "stress":
            ctx.nontrivial(json.dumps([m["scenario"], m["job"].get("until")]))
        if v != "OK":
            sc = m["scenario"]
            if sc[0] == "stress":
                key = f"{v}:stress"
                what = f"{v} in a stress run of 8 threads: {m['diffs'] or m['stacks']}"
            else:
                pt = m["job"]["until"][0]
                site = pt.split(":")[1] if pt.startswith("ev:") else ":".join(pt.split(":")[1:3])
                key = f"{v}:{sc[0]}||{sc[1]}:{site}"
                what = f"{v}: thread A {sc[0]}({sc[2] or 'optimizer'}) paused at {m['job']['until']}, thread B {sc[1]}: " + (json.dumps(m["diffs"]) if m["diffs"] else json.dumps(m["stacks"] or {})[:600])
            ctx.violation(key, what, m["job"])
    if model_deadlock and not any(verdicts[c["id"]][0] == "NoDeadlock" for c in cases):
        ctx.drift("LazyImport reports a lock-order deadlock for the measured LazyInBody but no real run hung")
    ctx.notes.update({"verdicts": stats, "dialects": chosen, "preemption_runs": len(jobs), "stress_runs": len(sjobs)})
    ctx.sample({"scenario": cases[0]["meta"]["scenario"], "until": cases[0]["meta"]["job"].get("until"), "events": cases[0]["events"][:8]})
    ctx.cov["exhaustive"] = False


def replay(ctx, payload):
    job = payload["payload"]
    classes = dialect_classes()
    o = child(job)
    bad = []
    if o["deadlock"]:
        return f"the run hangs again: {json.dumps(o.get('stacks') or {})[:400]}"
    for t, oo in job["ops"].items():
        want = child({"mode": "alone", "ops": {"A": oo}})["results"]["A"]
        if o["results"].get(t) != want:
            bad.append(f"thread {t}: alone {want} concurrent {o['results'].get(t)}")
    case = {"events": [{k: e[k] for k in ("t", "e", "m", "regs", "pubs")} for e in o["events"]], "deadlock": False, "same": not bad, "meta": {}}
    v = judge(ctx, "ImportTrace", [case], "replay")[case["id"]][0]
    return None if v == "OK" else f"{v}: {bad[:1]}"
