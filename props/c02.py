"""C02 — transpilation preserves query results on real engines (SQLite <-> DuckDB and both identity directions).
QueryGen.tla generates the queries and databases, the engines are the oracle, RelTrace.tla is the acceptor."""
from __future__ import annotations

import json
import os
from concurrent.futures import ProcessPoolExecutor

from lib import relgen, relq, tlc
from lib.tlc import MachineryError
from lib.tracejudge import judge

PAIRS = [("sqlite", "duckdb"), ("duckdb", "sqlite"), ("sqlite", "sqlite"), ("duckdb", "duckdb")]


def _skeletons(ctx, focus, k=1, seed=1):
    cfg = os.path.join(ctx.work, f"tgen_{focus}.cfg")
    with open(cfg, "w") as f:
        f.write(f'CONSTANTS\n  K = {k}\n  Focus = "{focus}"\nINIT Init\nNEXT Next\nINVARIANT Emit\n')
    res = tlc.run("QueryGen", cfg, ctx.work, workers=8, timeout_s=900, seed=seed, allow_violation=False)
    ctx.model(res, "QueryGen", cfg, f"transpilation skeleton generator, focus {focus}")
    sks = sorted((p["sk"] for p in res.printed), key=lambda d: json.dumps(d, sort_keys=True))
    if len(sks) != res.distinct:
        raise MachineryError("skeleton generator output incomplete")
    return sks


def _chunk(arg):
    import sys

    sys.path.insert(0, os.environ.get("VERIF_REPO", "/repo"))
    import logging

    logging.getLogger("sqlglot").setLevel(logging.CRITICAL)
    import sqlglot

    items, dbs = arg
    eng = {"duckdb": [relq.Duck(db) for db in dbs], "sqlite": [relq.Lite(db) for db in dbs]}
    out = []
    for it in items:
        src, dst, sql = it["src"], it["dst"], it["sql"]
        try:
            texts = sqlglot.transpile(sql, read=src, write=dst)
            if len(texts) != 1:
                raise ValueError(f"{len(texts)} statements")
            tsql = texts[0]
        except Exception as e:
            out.append({"skip": f"transpile raised {type(e).__name__}: {str(e)[:80]}", "sql": sql, "pair": f"{src}->{dst}"})
            continue
        for di, db in enumerate(dbs):
            try:
                n0, r0 = eng[src][di].run(sql)
            except Exception as e:
                out.append({"skip": f"source engine rejects the query: {type(e).__name__}: {str(e)[:80]}", "sql": sql, "pair": f"{src}->{dst}"})
                break
            try:
                n1, r1 = eng[dst][di].run(tsql)
                run1 = {"ok": True, "names": n1, "rows": relq.enc_rows(r1)}
            except Exception as e:
                run1 = {"ok": True, "names": ["!error"], "rows": [[["S", f"target engine rejects the transpiled text: {type(e).__name__}: {str(e)[:60]}"]]]}
            out.append({"runs": [{"ok": True, "names": n0, "rows": relq.enc_rows(r0)}, run1], "ordered": it["ordered"], "checknames": True,
                        "calibrate": False, "q": {}, "db": {},
                        "meta": {"sql": sql, "tsql": tsql, "pair": f"{src}->{dst}", "db": di, "dbrows": db, "feats": it["feats"], "sk": it["sk"]}})
    return out


def _differs(pair):
    src, dst = pair.split("->")

    def f(sk, db):
        import sqlglot

        b = relq.build_transpile(sk, src)
        if not b:
            return False
        sql, ordered, _ = b
        try:
            tsql = sqlglot.transpile(sql, read=src, write=dst)[0]
            e0 = relq.Duck(db) if src == "duckdb" else relq.Lite(db)
            e1 = relq.Duck(db) if dst == "duckdb" else relq.Lite(db)
            _, r0 = e0.run(sql)
        except Exception:
            return False
        try:
            _, r1 = e1.run(tsql)
        except Exception:
            return True
        a, b2 = [repr(x) for x in relq.enc_rows(r0)], [repr(x) for x in relq.enc_rows(r1)]
        return a != b2 if ordered else sorted(a) != sorted(b2)

    return f


T_NEUTRAL = [("offset", "none"), ("limit", "none"), ("distinct", False), ("where", "none"), ("join", "none"), ("special", "none"), ("expr", "none"),
             ("onulls", "first"), ("odir", "asc"), ("ocol", "a"), ("ocol", "none")]


def _minimize(sk, db, fails):
    sk = dict(sk)
    db = {t: list(db.get(t, [])) for t in relq.SCHEMA}
    changed = True
    rounds = 0
    while changed and rounds < 3:
        changed = False
        rounds += 1
        for f, v in T_NEUTRAL:
            if sk.get(f) == v:
                continue
            cand = dict(sk)
            cand[f] = v
            if fails(cand, db):
                sk = cand
                changed = True
        for t in relq.SCHEMA:
            i = 0
            while i < len(db[t]):
                cand = {k: list(v) for k, v in db.items()}
                del cand[t][i]
                if fails(sk, cand):
                    db = cand
                    changed = True
                else:
                    i += 1
    return sk, db


def _shape(sk, src):
    """A failure that needs a scalar expression is keyed by that expression alone: every other feature of the fragment concerns
    ordering / limits / joins, which only decide whether the differing value becomes visible."""
    if sk.get("special") in ("qualify", "qualify2", "distinct_on"):
        # the rewrite of these constructs is the site; ordering / limit features only decide how the damage shows
        return f"special:{sk['special']}" + ("+limit" if sk.get("limit") != "none" else "") + ("+order" if sk.get("ocol") != "none" and sk["special"].startswith("qualify") else "")
    if sk.get("expr", "none") != "none":
        return f"expr:{sk['expr']}"
    return "+".join(relq.build_transpile(sk, src)[2]) or "plain"


def run(ctx):
    ctx.assumptions += [
        "the engines are the oracle (sqlite3 3.40, duckdb 1.5, one engine thread); integer tables with NULLs, duplicates and empty tables",
        "numeric results are compared by value (2 and 2.0 are the same row value); a target engine rejecting the transpiled text counts as a different result",
        "strftime-style formats are not generated (the generated tables have no timestamp columns); QUALIFY / DISTINCT ON / SEMI / ANTI only with DuckDB as the source",
    ]
    ctx.cov["rule"] = (
        "queries: TLC-enumerated skeletons of the transpilation fragment (every scalar expression x ordering variant; ordering/limit/offset x join x where x "
        "distinct x DuckDB-only constructs), rendered in the source dialect, x 4 dialect pairs x fixed + TLC-sampled databases; source text on the source "
        "engine vs transpile() output on the target engine; TLC compares rows (sequence when ordered) and column names; distinct by (pair, sql, db); "
        "non-trivial = the source engine returns rows"
    )
    sk_expr = _skeletons(ctx, "t_expr")
    sks = sk_expr + _skeletons(ctx, "t_order")
    n_expr = len(sk_expr)
    items, seen = [], set()
    for si, sk in enumerate(sks):
        if sk["ocol"] == "v" and sk["expr"] == "none":
            continue
        for src, dst in PAIRS:
            b = relq.build_transpile(sk, src)
            if not b:
                continue
            sql, ordered, feats = b
            if (src, dst, sql) in seen:
                continue
            seen.add((src, dst, sql))
            items.append({"sk": sk, "src": src, "dst": dst, "sql": sql, "ordered": ordered, "feats": feats, "core": si < n_expr})
    items.sort(key=lambda it: (it["sql"], it["src"], it["dst"]))
    if not ctx.thorough:
        # known findings exist on the unchanged tree: fixed, triaged space. Every scalar expression x ordering variant is always visited
        # (all four pairs); of the ordering/limit/join product the seed selects a slice
        core = [it for it in items if it["core"]]
        rest = [it for it in items if not it["core"]]
        import zlib

        items = core + [it for it in rest if zlib.crc32((it["sql"] + it["src"] + it["dst"]).encode()) % 6 == ctx.seed % 6]
    dbs = relgen.databases(ctx, 3 if ctx.thorough else 0)
    chunks = [items[i::48] for i in range(48)]
    cases, skips = [], []
    with ProcessPoolExecutor(max_workers=16) as ex:
        for o in ex.map(_chunk, [(c, dbs) for c in chunks if c]):
            for c in o:
                (skips if "skip" in c else cases).append(c)
    verdicts = judge(ctx, "RelTrace", cases, "transpile", per_shard=2000)
    ctx.count(len(cases), traces=len(cases))
    stats = {"ok": 0}
    keyers = {}
    for c in cases:
        clause, rowmask, namemask, _ = verdicts[c["id"]]
        m = c["meta"]
        if c["runs"][0]["rows"]:
            ctx.nontrivial((m["pair"], m["sql"], m["db"]))
        if clause == "OK":
            stats["ok"] += 1
            continue
        stats[clause] = stats.get(clause, 0) + 1
        src = m["pair"].split("->")[0]
        if clause == "SameRows":
            ky = keyers.setdefault(m["pair"], relq.Keyer(T_NEUTRAL, lambda s, src=src: _shape(s, src), _minimize))
            if m["sk"]["special"] in ("qualify", "qualify2", "distinct_on"):
                shape, minimal = _shape(m["sk"], src), None
            elif m["sk"]["expr"] != "none" and _differs(m["pair"])({**m["sk"], "expr": "none", "ocol": "a" if m["sk"]["ocol"] in ("v", "e") else m["sk"]["ocol"]}, {t: [tuple(r) for r in rows] for t, rows in m["dbrows"].items()}) is False:
                shape, minimal = f"expr:{m['sk']['expr']}", None  # the difference disappears without the expression
            else:
                shape, minimal = ky.key(m["sk"], {t: [tuple(r) for r in rows] for t, rows in m["dbrows"].items()}, _differs(m["pair"]), tuple(m["feats"]))
        else:
            shape, minimal = "+".join(m["feats"]) or "plain", None
        ctx.violation(
            f"{m['pair']}:{clause}:{shape}",
            f"{m['pair']}: {m['sql']!r} returns {c['runs'][0]['rows'][:5] if clause == 'SameRows' else c['runs'][0]['names']} on the source engine but the transpiled "
            f"{m['tsql']!r} returns {c['runs'][1]['rows'][:5] if clause == 'SameRows' else c['runs'][1]['names']} on the target (db {m['db']}: {m['dbrows']})",
            {**{k: m[k] for k in ("sql", "tsql", "pair", "db", "dbrows", "sk")}, "minimal": minimal},
        )
    sk_stat = {}
    for s in skips:
        k = s["pair"] + ": " + s["skip"].split(":")[0]
        sk_stat[k] = sk_stat.get(k, 0) + 1
    ctx.notes.update({"queries": len(items), "databases": len(dbs), "cases": len(cases), **stats, "skipped": sk_stat})
    if len(cases) < len(items):
        raise MachineryError(f"too few cases: {len(cases)} for {len(items)} queries; skips {sk_stat}")
    for c in cases[:: max(1, len(cases) // 2)][:2]:
        ctx.sample({"pair": c["meta"]["pair"], "sql": c["meta"]["sql"], "transpiled": c["meta"]["tsql"], "db": c["meta"]["dbrows"], "rows": c["runs"][0]["rows"][:4]})
    ctx.cov["exhaustive"] = False


def replay(ctx, payload):
    p = payload["payload"]
    src, dst = p["pair"].split("->")
    b = relq.build_transpile(p["sk"], src)
    if not b:
        return None
    cases = [c for c in _chunk(([{"sk": p["sk"], "src": src, "dst": dst, "sql": b[0], "ordered": b[1], "feats": b[2]}], [p["dbrows"]])) if "skip" not in c]
    verdicts = judge(ctx, "RelTrace", cases, "replay")
    for c in cases:
        if verdicts[c["id"]][0] != "OK":
            return f"{p['pair']}: {p['sql']!r} vs {c['meta']['tsql']!r} differ"
    return None
