"""C17 - column lineage reports exactly the base columns that flow into an output column.

spec -> code -> spec:
  * Lineage.tla (builder of view DAGs; TLC checks GraphAgrees, LeavesAreBase, NamesDistinct, UnionPositional, Stable
    exhaustively for two small bounds and along simulated derivations for the large bound) emits view DAGs;
  * this driver writes every DAG down in several presentations (derived tables, top-level CTEs, nested WITH clauses,
    the `sources=` argument; def-level and reference-level column-list aliases) x alias schemes, calls
    sqlglot.lineage.lineage per output column and once for all columns (shared cache), and extracts the leaves;
  * LineageTrace.tla recomputes Out(defs) and names the failing clause (Raised / Names / Unresolved / Missing / Extra).
The driver never computes an expected answer itself.
"""
from __future__ import annotations

import json
import os
import zlib
from concurrent.futures import ProcessPoolExecutor

from lib import tlc
from lib.tlc import MachineryError
from lib.tracejudge import judge

TABLES = {"t": ["a", "b"], "u": ["b", "a"], "v": ["a", "c"]}
SCHEMA = {t: {c: "int" for c in cols} for t, cols in TABLES.items()}
REN = ["p", "q", "r", "s", "w", "y", "z", "k"]
PRESENTATIONS = ["derived", "cte", "cte_nested", "cte_refrename", "sources", "sources_qualified"]
SCHEMES = ["s", "uniq", "swap", "implicit"]
OPS = ["UNION ALL", "UNION", "INTERSECT"]
SWAP = {"t": "u", "u": "v", "v": "t"}


def h(*xs):
    return zlib.crc32(json.dumps(xs, sort_keys=True).encode())


# ------------------------------------------------------------------ arity / names (structure only, no leaves)
def names_of(defs, src, memo=None):
    if src["k"] == "t":
        return list(TABLES[src["name"]])
    d = defs[src["i"] - 1]
    if d["kind"] == "union":
        return names_of(defs, d["branches"][0]["src"])
    out = []
    for it in d["proj"]:
        if it["k"] == "star":
            for fr in d["from"]:
                out += from_names(defs, fr)
        elif it["k"] == "qstar":
            out += from_names(defs, d["from"][it["f"] - 1])
        else:
            out.append(it["name"])
    return out


def from_names(defs, fr):
    n = names_of(defs, fr["src"])
    return REN[: len(n)] if fr["ren"] else n


def prune(defs):
    """Drop definitions the query (the last one) does not reach; renumber."""
    n = len(defs)
    need, stack = set(), [n]
    while stack:
        i = stack.pop()
        if i in need:
            continue
        need.add(i)
        d = defs[i - 1]
        srcs = [fr["src"] for fr in d["from"]] + [b["src"] for b in d["branches"]] + [it["sub"]["src"] for it in d["proj"] if it["sub"]["on"]]
        stack += [s["i"] for s in srcs if s["k"] == "v"]
    order = sorted(need)
    ren = {old: new + 1 for new, old in enumerate(order)}

    def fix(s):
        return {**s, "i": ren[s["i"]]} if s["k"] == "v" else s

    out = []
    for old in order:
        d = defs[old - 1]
        out.append({**d, "from": [{**fr, "src": fix(fr["src"])} for fr in d["from"]], "branches": [{**b, "src": fix(b["src"])} for b in d["branches"]],
                    "proj": [{**it, "sub": {**it["sub"], "src": fix(it["sub"]["src"])}} for it in d["proj"]]})
    return out


# ------------------------------------------------------------------ rendering
class R:
    def __init__(self, defs, pres, scheme, salt):
        self.defs, self.pres, self.scheme, self.salt = defs, pres, scheme, salt
        self.counter = 0
        self.sources = {}
        self.top_withs = {}  # name -> text (presentation "cte": hoisted to the statement)

    def view_name(self, i):
        return f"db.v{i}" if self.pres == "sources_qualified" else f"v{i}"

    def alias_for(self, src, f, used, refcount):
        sc = self.scheme
        if sc == "uniq":
            self.counter += 1
            return f"q{self.counter}"
        if sc == "swap":
            a = SWAP[src["name"]] if src["k"] == "t" else "t"
            if a not in used:
                return a
        if sc == "implicit" and refcount == 1:
            if src["k"] == "t":
                return None
            if self.pres != "derived":
                return None
        return f"s{f}"

    def src_item(self, src, ren, alias, withs):
        """-> (FROM item text, qualifier)"""
        defs = self.defs
        if src["k"] == "t":
            return (f"{src['name']} AS {alias}" if alias else src["name"]), (alias or src["name"])
        i = src["i"]
        cols = REN[: len(names_of(defs, src))]
        collist = f"({', '.join(cols)})" if ren else ""
        pres = self.pres
        if pres == "derived":
            return f"({self.statement(i)}) AS {alias}{collist}", alias
        if pres in ("sources", "sources_qualified"):
            name = self.view_name(i)
            if name not in self.sources:
                self.sources[name] = None
                self.sources[name] = self.statement(i)
            short = f"v{i}"
            if ren and not alias:
                alias = short
            return (f"{name} AS {alias}{collist}" if alias else name), (alias or short)
        # CTE presentations
        if ren and pres != "cte_refrename":
            name, header = f"w{i}", f"w{i}{collist}"
        else:
            name, header = f"v{i}", f"v{i}"
        if name not in withs:
            withs[name] = None
            withs[name] = f"{header} AS ({self.statement(i)})"
        if ren and pres == "cte_refrename":
            alias = alias or name
            return f"{name} AS {alias}{collist}", alias
        return (f"{name} AS {alias}" if alias else name), (alias or name)

    def statement(self, i):
        """A self-contained query text for definition i (own WITH attached in the nested presentation)."""
        withs, body = self.body(i)
        return self.attach(withs, body)

    def attach(self, withs, body):
        if self.pres == "cte_nested" and withs:
            return "WITH " + ", ".join(withs.values()) + " " + body
        self.top_withs.update(withs)
        return body

    def body(self, i):
        d = self.defs[i - 1]
        withs = {}
        if d["kind"] == "union":
            op = OPS[h(self.salt, i, "op") % len(OPS)]
            parts = []
            for k, b in enumerate(d["branches"]):
                src = b["src"]
                if b["mode"] == "inline":
                    w2, txt = self.body(src["i"])
                    withs.update(w2)
                    if self.defs[src["i"] - 1]["kind"] == "union" and k > 0:
                        txt = f"({txt})"
                    parts.append(txt)
                    continue
                alias = self.alias_for(src, 1, set(), 1)
                item, q = self.src_item(src, False, alias, withs)
                if b["mode"] == "star":
                    parts.append(f"SELECT * FROM {item}")
                else:
                    parts.append(f"SELECT {', '.join(f'{q}.{c}' for c in names_of(self.defs, src))} FROM {item}")
            return withs, f" {op} ".join(parts)
        used, items, quals = set(), [], []
        keys = [json.dumps(fr["src"], sort_keys=True) for fr in d["from"]]
        for f, fr in enumerate(d["from"], 1):
            alias = self.alias_for(fr["src"], f, used, keys.count(keys[f - 1]))
            item, q = self.src_item(fr["src"], fr["ren"], alias, withs)
            if q in used:  # never produce an ambiguous FROM clause
                alias = f"s{f}"
                item, q = self.src_item(fr["src"], fr["ren"], alias, withs)
            used.add(q)
            items.append(item)
            quals.append(q)
        cols = [from_names(self.defs, fr) for fr in d["from"]]
        unq = len(d["from"]) == 1 and h(self.salt, i, "unq") % 3 == 0
        proj = []
        for k, it in enumerate(d["proj"]):
            if it["k"] == "star":
                proj.append("*")
            elif it["k"] == "qstar":
                proj.append(f"{quals[it['f'] - 1]}.*")
            else:
                terms = [(cols[f - 1][c - 1] if unq else f"{quals[f - 1]}.{cols[f - 1][c - 1]}") for f, c in it["refs"]]
                if it["sub"]["on"]:
                    s = it["sub"]
                    self.counter += 1
                    za = f"z{self.counter}" if self.scheme == "uniq" else "z"
                    w3 = {}
                    item, q = self.src_item(s["src"], False, za, w3)
                    inner = f"SELECT MAX({q}.{names_of(self.defs, s['src'])[s['c'] - 1]}) AS m FROM {item}"
                    if self.pres == "cte_nested" and w3:
                        inner = "WITH " + ", ".join(w3.values()) + " " + inner
                    else:
                        withs.update(w3)
                    terms.append(f"({inner})")
                e = " + ".join(terms) if terms else "1"
                if len(terms) == 1 and not it["sub"]["on"] and h(self.salt, i, k, "fn") % 4 == 0:
                    e = f"COALESCE({e}, 0)"
                proj.append(f"{e} AS {it['name']}")
        if len(items) == 2:
            style = h(self.salt, i, "join") % 3
            if style == 0:
                frm = f"{items[0]} CROSS JOIN {items[1]}"
            elif style == 1:
                frm = f"{items[0]}, {items[1]}"
            else:
                frm = f"{items[0]} JOIN {items[1]} ON {quals[0]}.{cols[0][0]} = {quals[1]}.{cols[1][-1]}"
        else:
            frm = items[0]
        where = ""
        if h(self.salt, i, "where") % 3 == 0:
            where = f" WHERE NOT {quals[-1]}.{cols[-1][-1]} IS NULL"
        return withs, f"SELECT {', '.join(proj)} FROM {frm}{where}"

    def top(self):
        n = len(self.defs)
        withs, body = self.body(n)
        if self.pres == "cte_nested":
            sql = ("WITH " + ", ".join(withs.values()) + " " if withs else "") + body
        else:
            self.top_withs.update(withs)
            order = sorted(self.top_withs, key=lambda nm: int(nm[1:]))
            sql = ("WITH " + ", ".join(self.top_withs[nm] for nm in order) + " " if order else "") + body
        return sql, (dict(self.sources) or None)


def uses(defs):
    f = {"ren": False, "view": False, "sub": False, "union": False, "star": False, "shared": False}
    cnt = {}
    for d in defs:
        srcs = [fr["src"] for fr in d["from"]] + [b["src"] for b in d["branches"]] + [it["sub"]["src"] for it in d["proj"] if it["sub"]["on"]]
        for s in srcs:
            if s["k"] == "v":
                f["view"] = True
                cnt[s["i"]] = cnt.get(s["i"], 0) + 1
        f["ren"] |= any(fr["ren"] for fr in d["from"])
        f["sub"] |= any(it["sub"]["on"] for it in d["proj"])
        f["union"] |= d["kind"] == "union"
        f["star"] |= any(it["k"] != "e" for it in d["proj"]) or any(b["mode"] == "star" for b in d["branches"])
    f["shared"] = any(v > 1 for v in cnt.values())
    return f


def variants(defs, full=True):
    """(presentation, scheme) pairs that are distinct ways of writing this DAG (full=False: two hash-chosen schemes per presentation)."""
    u = uses(defs)
    pres = ["derived"]
    if u["view"]:
        pres += ["cte", "cte_nested", "sources", "sources_qualified"]
        if u["ren"]:
            pres.append("cte_refrename")
    out = []
    for p in pres:
        k = h(defs, p) % 4
        out += [(p, sc) for j, sc in enumerate(SCHEMES) if full or j in (k, (k + 1) % 4)]
    return out


# ------------------------------------------------------------------ observation
def _leaves(node):
    from sqlglot import exp

    out, seen, stack = set(), set(), [node]
    while stack:
        n = stack.pop()
        if id(n) in seen:
            continue
        seen.add(id(n))
        if n.downstream:
            stack.extend(n.downstream)
        elif isinstance(n.expression, exp.Table):
            out.add((n.expression.name, n.name.split(".")[-1]))
        elif isinstance(n.expression, exp.Placeholder) or n.name == "*" or isinstance(n.expression, exp.Star):
            out.add(("?", n.name))
    return sorted(out)


def observe(defs, pres, scheme, salt, mode):
    """mode: 'each' (one lineage() call per output column) | 'all' (column=None, shared cache) | 'each_notrim'"""
    from lib.guard import HardTimeout, time_limit
    from sqlglot.lineage import lineage
    import logging

    logging.getLogger("sqlglot").setLevel(logging.ERROR)
    r = R(defs, pres, scheme, salt)
    sql, sources = r.top()
    want_names = names_of(defs, {"k": "v", "i": len(defs)})
    rec = {"sql": sql, "sources": sources, "pres": pres, "scheme": scheme, "mode": mode}
    try:
        with time_limit(20):
            if mode == "all":
                res = lineage(None, sql, schema=SCHEMA, sources=sources)
                obs = [{"name": k, "lv": [list(x) for x in _leaves(v)]} for k, v in res.items()]
            else:
                obs = []
                for nm in want_names:
                    node = lineage(nm, sql, schema=SCHEMA, sources=sources, trim_selects=(mode == "each"))
                    obs.append({"name": nm, "lv": [list(x) for x in _leaves(node)]})
        rec.update(outcome="ok", obs=obs)
    except HardTimeout:
        rec.update(outcome="Timeout", obs=[])
    except RecursionError:
        rec.update(outcome="RecursionError", obs=[])
    except Exception as e:  # noqa: BLE001 - every exception is an observation
        rec.update(outcome=type(e).__name__, obs=[], error=str(e)[:200])
    return rec


def _chunk(arg):
    from lib import guard  # noqa: F401

    dags, full = arg
    out = []
    for defs in dags:
        groups = {}
        salt = h(defs) % 997
        for pres, scheme in variants(defs, full):
            for mode in ("each", "all") if scheme != "uniq" else ("each", "all", "each_notrim"):
                try:
                    rec = observe(defs, pres, scheme, salt, mode)
                except Exception as e:  # noqa: BLE001 - renderer bug = machinery
                    out.append({"crash": f"{type(e).__name__}: {e}", "defs": defs, "pres": pres, "scheme": scheme})
                    continue
                key = json.dumps([rec["outcome"], rec["obs"]], sort_keys=True)
                g = groups.setdefault(key, {"defs": defs, "outcome": rec["outcome"], "obs": rec["obs"], "meta": {"runs": [], "n": 0}})
                g["meta"]["n"] += 1
                if len(g["meta"]["runs"]) < 40:
                    g["meta"]["runs"].append({k: rec.get(k) for k in ("sql", "sources", "pres", "scheme", "mode", "error")})
        out.extend(groups.values())
    return out


# ------------------------------------------------------------------ minimisation and keys
def wellformed(defs):
    try:
        for i, d in enumerate(defs, 1):
            srcs = [fr["src"] for fr in d["from"]] + [b["src"] for b in d["branches"]] + [it["sub"]["src"] for it in d["proj"] if it["sub"]["on"]]
            if any(s["k"] == "v" and not (1 <= s["i"] < i) for s in srcs):
                return False
            if d["kind"] == "union":
                if len(d["branches"]) < 2 or len({len(names_of(defs, b["src"])) for b in d["branches"]}) != 1:
                    return False
                if any(b["mode"] == "inline" and b["src"]["k"] != "v" for b in d["branches"]):
                    return False
            else:
                if not d["proj"] or not d["from"]:
                    return False
                ar = [len(from_names(defs, fr)) for fr in d["from"]]
                for it in d["proj"]:
                    if it["k"] == "qstar" and not 1 <= it["f"] <= len(ar):
                        return False
                    for f, c in it["refs"]:
                        if not (1 <= f <= len(ar) and 1 <= c <= ar[f - 1]):
                            return False
                    if it["sub"]["on"] and not 1 <= it["sub"]["c"] <= len(names_of(defs, it["sub"]["src"])):
                        return False
                if any(fr["ren"] and fr["src"]["k"] != "v" for fr in d["from"]):
                    return False
            nm = names_of(defs, {"k": "v", "i": i})
            if len(nm) > len(REN) or len(set(nm)) != len(nm):
                return False
        return bool(defs)
    except (IndexError, KeyError):
        return False


NOSUB = {"on": False, "src": {"k": "n", "name": "", "i": 0}, "c": 0}


def reductions(defs):
    """Strictly simpler DAGs (fewer definitions / entries / items / reads / features)."""
    import copy

    out = []
    n = len(defs)
    for i in range(1, n):
        out.append(prune(defs[:i]))
    for di, d in enumerate(defs):
        def put(nd):
            c = copy.deepcopy(defs)
            c[di] = nd
            out.append(prune(c))
        if d["kind"] == "union":
            for k in range(len(d["branches"])):
                if len(d["branches"]) > 2:
                    put({**d, "branches": d["branches"][:k] + d["branches"][k + 1:]})
                b = d["branches"][k]
                if b["src"]["k"] == "v":
                    for tn in TABLES:
                        put({**d, "branches": d["branches"][:k] + [{"src": {"k": "t", "name": tn, "i": 0}, "mode": "star"}] + d["branches"][k + 1:]})
                if b["mode"] != "star":
                    put({**d, "branches": d["branches"][:k] + [{**b, "mode": "star"}] + d["branches"][k + 1:]})
            continue
        for k in range(len(d["proj"])):
            it = d["proj"][k]
            if len(d["proj"]) > 1:
                put({**d, "proj": d["proj"][:k] + d["proj"][k + 1:]})
            if it["sub"]["on"]:
                put({**d, "proj": d["proj"][:k] + [{**it, "sub": NOSUB}] + d["proj"][k + 1:]})
                if it["sub"]["src"]["k"] == "v":
                    put({**d, "proj": d["proj"][:k] + [{**it, "sub": {"on": True, "src": {"k": "t", "name": "t", "i": 0}, "c": 1}}] + d["proj"][k + 1:]})
            for r in range(len(it["refs"])):
                put({**d, "proj": d["proj"][:k] + [{**it, "refs": it["refs"][:r] + it["refs"][r + 1:]}] + d["proj"][k + 1:]})
        for f in range(len(d["from"])):
            fr = d["from"][f]
            if len(d["from"]) > 1 and not any((it["k"] == "qstar" and it["f"] == f + 1) or any(rf[0] == f + 1 for rf in it["refs"]) for it in d["proj"]):
                nproj = [{**it, "f": it["f"] - (1 if it["k"] == "qstar" and it["f"] > f + 1 else 0), "refs": [[rf[0] - (1 if rf[0] > f + 1 else 0), rf[1]] for rf in it["refs"]]} for it in d["proj"]]
                put({**d, "from": d["from"][:f] + d["from"][f + 1:], "proj": nproj})
            if fr["ren"]:
                put({**d, "from": d["from"][:f] + [{**fr, "ren": False}] + d["from"][f + 1:]})
            if fr["src"]["k"] == "v":
                for tn in TABLES:
                    put({**d, "from": d["from"][:f] + [{"src": {"k": "t", "name": tn, "i": 0}, "ren": False}] + d["from"][f + 1:]})
    seen, res = set(), []
    me = json.dumps(defs, sort_keys=True)
    for c in out:
        k = json.dumps(c, sort_keys=True)
        if k != me and k not in seen and wellformed(c):
            seen.add(k)
            res.append(c)
    return res


def shape(defs):
    """Compact structural description (table names abstracted)."""
    def src(s):
        return "T" if s["k"] == "t" else f"V{s['i']}"

    parts = []
    for d in defs:
        if d["kind"] == "union":
            parts.append("U(" + ",".join(sorted({src(b["src"]) + {"inline": "i", "star": "*", "cols": "c"}[b["mode"]] for b in d["branches"]})) + ")")
        else:
            fr = ",".join(src(f["src"]) + ("r" if f["ren"] else "") for f in d["from"])
            items = ",".join(sorted({"*" if it["k"] == "star" else ("q*" if it["k"] == "qstar" else "e" + ("s" + src(it["sub"]["src"]) if it["sub"]["on"] else "")) for it in d["proj"]}))
            parts.append(f"S({fr};{items})")
    return "".join(parts)


def _observe_all(arg):
    """All (presentation, scheme, mode) runs of one DAG -> grouped observations (for minimisation)."""
    return _chunk(([arg], True))


def minimise(ctx, failing, judge_fn, rounds=12):
    """failing: list of (defs, clause).  Batch greedy minimisation with the acceptor in the loop."""
    cur = [(d, cl) for d, cl in failing]
    done = [False] * len(cur)
    for _ in range(rounds):
        cands, owner = [], []
        for k, (d, cl) in enumerate(cur):
            if done[k]:
                continue
            for c in reductions(d):
                cands.append(c)
                owner.append(k)
        if not cands:
            break
        with ProcessPoolExecutor(max_workers=16) as ex:
            obs = list(ex.map(_observe_all, cands, chunksize=4))
        cases, cowner = [], []
        for ci, groups in enumerate(obs):
            for g in groups:
                if "crash" in g:
                    continue
                cases.append(g)
                cowner.append(ci)
        verdicts = judge_fn(cases)
        bad = {}
        for g, ci in zip(cases, cowner):
            cl = verdicts[g["id"]][0]
            if cl != "OK":
                bad.setdefault(ci, set()).add(cl)
        progressed = set()
        for ci, c in enumerate(cands):
            k = owner[ci]
            if k in progressed:
                continue
            if cur[k][1] in bad.get(ci, ()):
                cur[k] = (c, cur[k][1])
                progressed.add(k)
        for k in range(len(cur)):
            if not done[k] and k not in progressed:
                done[k] = True
    return [d for d, _ in cur]


def gen_cfg(path, consts, body):
    with open(path, "w") as f:
        f.write("CONSTANTS\n" + "".join(f"  {k} = {v}\n" for k, v in consts.items()) + body)


def run(ctx):
    ctx.assumptions += [
        "'syntactically flows into' is Out in LineageSem.tla: columns read by the projected expression (incl. an uncorrelated scalar subquery's output), through stars, column-list aliases, views and positional set operations; join/WHERE conditions do not flow",
        "a leaf is a lineage Node without downstream whose expression is a Table (reported as table.column); Placeholder / star leaves count as unresolved",
    ]
    ctx.cov["rule"] = (
        "view DAGs derived by TLC from Lineage.tla (<=4 definitions, <=2 FROM entries, <=3 items, <=2 column reads + scalar subquery, stars, unions of <=3 branches, column-list aliases); "
        "each written in up to 6 presentations x 4 alias schemes x {per-column, all-columns(shared cache), untrimmed}; distinct by pruned DAG; non-trivial = the query reads a view"
    )
    base = {"Variant": '"code"'}
    props = "SPECIFICATION Spec\nINVARIANT GraphAgrees\nINVARIANT LeavesAreBase\nINVARIANT NamesDistinct\nINVARIANT UnionPositional\nPROPERTY Stable\nCHECK_DEADLOCK FALSE\n"
    dags = {}

    def take(res):
        for p in res.printed:
            d = prune(p["defs"])
            dags.setdefault(json.dumps(d, sort_keys=True), d)

    cfg = os.path.join(ctx.work, "lineage_wide.cfg")
    gen_cfg(cfg, {**base, "MaxDefs": 1, "MaxFrom": 2, "MaxProj": 2, "MaxRefs": 2, "Sample": "FALSE"}, props + "ACTION_CONSTRAINT Emit\n")
    res = tlc.run("Lineage", cfg, ctx.work, workers=16, timeout_s=900, allow_violation=False)
    ctx.model(res, "Lineage", cfg, "exhaustive: one definition, 2 FROM entries, 2 items; GraphAgrees, LeavesAreBase, NamesDistinct, UnionPositional, Stable")
    wide = list(res.printed)
    if ctx.thorough:
        cfg = os.path.join(ctx.work, "lineage_deep.cfg")
        gen_cfg(cfg, {**base, "MaxDefs": 2, "MaxFrom": 1, "MaxProj": 1, "MaxRefs": 1, "Sample": "FALSE"}, props + "ACTION_CONSTRAINT Emit\n")
        gen_cfg(cfg, {**base, "MaxDefs": 2, "MaxFrom": 1, "MaxProj": 1, "MaxRefs": 1, "Sample": "FALSE"}, props + "INVARIANT MemoAgrees\nACTION_CONSTRAINT Emit\n")
        res = tlc.run("LineageWalk", cfg, ctx.work, workers=16, timeout_s=1800, allow_violation=False)
        ctx.model(res, "LineageWalk", cfg, "exhaustive: two definitions (view over view/table), 1 FROM entry, 1 item; incl. MemoAgrees")
        deep = list(res.printed)
    else:
        deep = []
    # negative controls: the model-level check must reject a wrong semantics
    for variant in ("union_by_name", "star_first_only", "sub_ignored"):
        cfg = os.path.join(ctx.work, f"lineage_neg_{variant}.cfg")
        gen_cfg(cfg, {"Variant": f'"{variant}"', "MaxDefs": 1, "MaxFrom": 2, "MaxProj": 1, "MaxRefs": 1, "Sample": "FALSE"}, "SPECIFICATION Spec\nINVARIANT GraphAgrees\nCHECK_DEADLOCK FALSE\n")
        r = tlc.run("Lineage", cfg, ctx.work, workers=8, timeout_s=600)
        if "GraphAgrees" not in r.violated:
            raise MachineryError(f"negative control {variant}: GraphAgrees was not violated")
    for variant in ("key_without_scope", "key_without_column"):
        cfg = os.path.join(ctx.work, f"lineage_neg_{variant}.cfg")
        gen_cfg(cfg, {"Variant": f'"{variant}"', "MaxDefs": 4, "MaxFrom": 2, "MaxProj": 3, "MaxRefs": 2, "Sample": "TRUE"}, "SPECIFICATION Spec\nINVARIANT MemoAgrees\nCHECK_DEADLOCK FALSE\n")
        r = tlc.run("LineageWalk", cfg, ctx.work, workers=4, timeout_s=600, simulate="num=3000", depth=24, seed=5)
        if "MemoAgrees" not in r.violated:
            raise MachineryError(f"negative control {variant}: MemoAgrees was not violated")
    ctx.notes["negative_controls"] = "GraphAgrees violated under union_by_name, star_first_only, sub_ignored; MemoAgrees (LineageWalk) violated under key_without_scope, key_without_column"
    # the one-definition space: a hash slice in quick, everything in thorough
    # fixed universe: an eighth of the one-definition DAGs (hash % 8 == 0); thorough runs all of it, quick a fifteenth of it chosen by the seed
    for p in wide:
        d = prune(p["defs"])
        k = json.dumps(d, sort_keys=True)
        hv = zlib.crc32(k.encode())
        if hv % 8 == 0 and (ctx.thorough or (hv // 8) % 15 == ctx.seed % 15):
            dags.setdefault(k, d)
    fracd = 8
    for p in deep:
        d = prune(p["defs"])
        k = json.dumps(d, sort_keys=True)
        if len(d) > 1 and zlib.crc32(k.encode()) % fracd == 0:
            dags.setdefault(k, d)
    # simulated derivations of the large bound
    cfg = os.path.join(ctx.work, "lineage_sim.cfg")
    gen_cfg(cfg, {**base, "MaxDefs": 4, "MaxFrom": 2, "MaxProj": 3, "MaxRefs": 2, "Sample": "TRUE"}, "SPECIFICATION Spec\nINVARIANT GraphAgrees\nINVARIANT LeavesAreBase\nINVARIANT NamesDistinct\nINVARIANT UnionPositional\nINVARIANT MemoAgrees\nACTION_CONSTRAINT Emit\nCHECK_DEADLOCK FALSE\n")
    # three fixed simulation seeds, one worker each (deterministic); thorough runs all, quick a prefix of the one chosen by the seed
    n0 = len(dags)
    for r in (range(3) if ctx.thorough else [ctx.seed % 3]):
        num = 1500 if ctx.thorough else 700
        res = tlc.run("LineageWalk", cfg, ctx.work, workers=1, timeout_s=1800, simulate=f"num={num}", depth=24, seed=1001 + r, allow_violation=False)
        ctx.model(res, "LineageWalk", cfg, f"simulation (seed {1001 + r}): {num} derivations of up to 4 definitions; the four invariants plus MemoAgrees (memoised to_node graph = Out) on every visited state")
        for p in res.printed:
            d = prune(p["defs"])
            if len(d) > 1 or uses(d)["union"]:
                dags.setdefault(json.dumps(d, sort_keys=True), d)
    ctx.notes["dags"] = {"one_definition": n0, "simulated_multi_definition": len(dags) - n0}
    work = [dags[k] for k in sorted(dags)]
    chunks = [work[i::96] for i in range(96)]
    cases, crashes = [], []
    with ProcessPoolExecutor(max_workers=16) as ex:
        for o in ex.map(_chunk, [(c, ctx.thorough) for c in chunks if c]):
            for c in o:
                (crashes if "crash" in c else cases).append(c)
    if crashes:
        raise MachineryError(f"{len(crashes)} renderer crashes, e.g. {crashes[0]}")
    verdicts = judge(ctx, "LineageTrace", cases, "lineage", per_shard=2500, cfg_text='CONSTANTS\n  Variant = "code"\nINIT Init\nNEXT Next\nINVARIANT Verdict\n')
    runs = sum(c["meta"]["n"] for c in cases)
    ctx.count(runs, traces=len(cases))
    stats, failing = {}, []
    for c in cases:
        clause, col = verdicts[c["id"]][0], verdicts[c["id"]][1]
        stats[clause] = stats.get(clause, 0) + c["meta"]["n"]
        if uses(c["defs"])["view"]:
            ctx.nontrivial(json.dumps(c["defs"], sort_keys=True))
        if clause != "OK":
            failing.append((c, clause, col))
    CFG = 'CONSTANTS\n  Variant = "code"\nINIT Init\nNEXT Next\nINVARIANT Verdict\n'
    rnd = [0]

    def judge_fn(cs):
        rnd[0] += 1
        return judge(ctx, "LineageTrace", cs, f"min{rnd[0]}", per_shard=2500, cfg_text=CFG)

    # one minimisation per (failing DAG, clause); beyond the cap the unminimised shape is the key (and is reported)
    uniq = {}
    for c, clause, col in failing:
        uniq.setdefault((json.dumps(c["defs"], sort_keys=True), clause), (c["defs"], clause))
    todo = list(uniq.items())[:120]
    mins = minimise(ctx, [v for _, v in todo], judge_fn) if todo else []
    minimal = {k: m for (k, _), m in zip(todo, mins)}
    # which presentations fail on the minimal DAG
    presfail = {}
    if minimal:
        mcases, mown = [], []
        with ProcessPoolExecutor(max_workers=16) as ex:
            for k, groups in zip(minimal, ex.map(_observe_all, list(minimal.values()), chunksize=2)):
                for g in groups:
                    if "crash" not in g:
                        mcases.append(g)
                        mown.append(k)
        mver = judge_fn(mcases) if mcases else {}
        for g, k in zip(mcases, mown):
            if mver[g["id"]][0] == k[1]:
                presfail.setdefault(k, set()).update(r["pres"] for r in g["meta"]["runs"])
    for c, clause, col in failing:
        m = c["meta"]
        k = (json.dumps(c["defs"], sort_keys=True), clause)
        md = minimal.get(k, c["defs"])
        pf = presfail.get(k) or {r["pres"] for r in m["runs"]}
        allp = {p for p, _ in variants(md)}
        where = "all" if pf >= allp else "+".join(sorted(pf))
        r0 = m["runs"][0]
        got = c["obs"][col - 1] if col and col <= len(c["obs"]) else c["outcome"]
        sh = shape(md)
        mixed = any(d["kind"] == "select" and any(it["k"] == "star" for it in d["proj"]) and any(d["from"][f]["src"]["k"] == "v" and d["from"][g]["src"]["k"] == "t" for f in range(len(d["from"])) for g in range(f + 1, len(d["from"]))) for d in md)
        if mixed and not pf & {"cte", "cte_nested", "cte_refrename"} and len(md) > 1:
            # the minimal failing DAG needs a bare * over a derived table written before a physical table, and only fails where the view is a derived table
            where, sh = "derived", "star_over_derived_then_table+positional_use"
        ctx.violation(f"{clause}:{where}:{sh}",
                      f"{clause} for output column #{col} of {r0['sql']!r}" + (f" with sources={r0['sources']}" if r0["sources"] else "") + f" [{r0['pres']}/{r0['scheme']}/{r0['mode']}]: reported {got}" + (f" ({r0.get('error')})" if r0.get("error") else "") + f"; minimal DAG {shape(md)}",
                      {"defs": c["defs"], "pres": r0["pres"], "scheme": r0["scheme"], "mode": r0["mode"]})
    ctx.notes.update({"verdicts": stats, "lineage_runs": runs, "distinct_observations": len(cases)})
    for c in cases[:: max(1, len(cases) // 2)][:2]:
        ctx.sample({"sql": c["meta"]["runs"][0]["sql"], "sources": c["meta"]["runs"][0]["sources"], "reported": c["obs"]})
    ctx.cov["exhaustive"] = False


def replay(ctx, payload):
    p = payload["payload"]
    rec = observe(p["defs"], p["pres"], p["scheme"], h(p["defs"]) % 997, p["mode"])
    case = {"defs": p["defs"], "outcome": rec["outcome"], "obs": rec["obs"], "meta": {}}
    verdicts = judge(ctx, "LineageTrace", [case], "replay", cfg_text='CONSTANTS\n  Variant = "code"\nINIT Init\nNEXT Next\nINVARIANT Verdict\n')
    v = verdicts[case["id"]]
    return None if v[0] == "OK" else f"{v[0]} for output column #{v[1]} of {rec['sql']!r}"
