"""C11 — the Python executor returns what a reference SQL engine returns (spec/RelSem.tla is the specification
the executor implements; spec/QueryGen.tla generates queries and databases; spec/RelTrace.tla is the acceptor)."""
from __future__ import annotations

import json
import os
from concurrent.futures import ProcessPoolExecutor

from lib import relgen, relq
from lib.tlc import MachineryError
from lib.tracejudge import judge


def _chunk(arg):
    import sys

    sys.path.insert(0, os.environ.get("VERIF_REPO", "/repo"))
    import logging

    logging.getLogger("sqlglot").setLevel(logging.CRITICAL)
    from sqlglot.errors import ExecuteError
    from lib.guard import HardTimeout, limits, time_limit

    items, dbs = arg
    ducks = [relq.Duck(db) for db in dbs]
    lites = [relq.Lite(db) for db in dbs]
    out = []
    for it in items:
        sql = it["sql"]
        total = it["q"]["kind"] == "select" and bool(it["q"]["order"])
        for di, db in enumerate(dbs):
            runs = []
            try:
                n, r = ducks[di].run(sql)
                runs.append({"label": "duckdb", "ok": True, "names": n, "rows": relq.enc_rows(r)})
            except Exception as e:
                out.append({"skip": f"duckdb: {type(e).__name__}: {str(e)[:100]}", "sql": sql})
                break
            try:
                n, r = lites[di].run(sql)
                runs.append({"label": "sqlite", "ok": True, "names": n, "rows": relq.enc_rows(r)})
            except Exception as e:
                runs.append({"label": "sqlite", "ok": False, "names": [], "rows": [], "err": f"{type(e).__name__}: {str(e)[:80]}"})
            crash = None
            try:
                with time_limit(30):
                    n, r = relq.executor_run(sql, db)
                runs.append({"label": "executor", "ok": True, "names": n, "rows": relq.enc_rows(r)})
            except ExecuteError as e:
                runs.append({"label": "executor", "ok": False, "names": [], "rows": [], "err": "ExecuteError"})
            except HardTimeout:
                crash = "Timeout"
            except Exception as e:
                crash = f"{type(e).__name__}"
                runs.append({"label": "executor", "ok": False, "names": [], "rows": [], "err": f"{type(e).__name__}: {str(e)[:120]}"})
            out.append({"runs": [{k: v for k, v in r.items() if k != "err"} for r in runs], "ordered": total, "checknames": True,
                        "calibrate": relq.in_sem_fragment(it["q"]), "q": relq.sem_term(it["q"]), "db": relq.tla_db(db),
                        "meta": {"sql": sql, "db": di, "dbrows": db, "feats": it["feats"], "sk": it["sk"], "crash": crash,
                                 "errs": [r.get("err") for r in runs]}})
    return out


def _executor_differs(sk, db):
    """search heuristic for minimisation only (the verdict of a case is always TLC's)"""
    b = relq.build(sk)
    if not b:
        return False
    sql = relq.query_sql(b[0])
    try:
        _, d = relq.Duck(db).run(sql)
        _, l = relq.Lite(db).run(sql)
    except Exception:
        return False
    norm = lambda rows: sorted(map(repr, relq.enc_rows(rows)))
    if norm(d) != norm(l):
        return False
    try:
        _, x = relq.executor_run(sql, db)
    except Exception as e:
        return type(e).__name__ != "ExecuteError"
    return norm(x) != norm(d)


_KEYER = relq.Keyer(relq.NEUTRAL, lambda s: relq.shape_key(s, {}), relq.minimize)


def _key(m, clause):
    shape, minimal = _KEYER.key(m["sk"], {t: [tuple(r) for r in rows] for t, rows in m["dbrows"].items()}, _executor_differs, tuple(m["feats"]))
    if minimal:
        m["minimal"] = {**minimal, "sql": relq.query_sql(relq.build(minimal["sk"])[0])}
    return f"{clause}:{shape}"


def run(ctx):
    ctx.assumptions += [
        "integer columns only (t(a,b), u(a,c), e(a,d)); boolean projections are avoided because SQLite has no boolean type",
        "a case is conclusive only when DuckDB and SQLite agree with each other; LIMIT only appears under a total ORDER BY with explicit NULLS FIRST",
        "RelSem.Sem is calibrated against the engines on every conclusive case inside its fragment (statistic + SPEC-DRIFT, not a verdict)",
    ]
    ctx.cov["rule"] = (
        "queries: skeleton spaces of QueryGen.tla (joins/subq/elim/sets enumerated completely, TLC-sampled across all factors); databases: 5 fixed + TLC-sampled; "
        "one case per (query, database): DuckDB, SQLite and the executor run it, TLC compares the row bags / sequences and names; distinct by (sql, db); "
        "non-trivial = the engines return at least one row"
    )
    pools = []
    core_sql = set()
    for focus in ("joins", "subq", "elim", "sets", "joins3", "arith"):
        got = relgen.skeletons(ctx, focus)
        if focus in ("joins3", "arith"):
            core_sql |= {it["sql"] for it in got}   # small sub-spaces that the quick tier always visits completely
        pools += got
    pools += relgen.skeletons(ctx, "sample", k=3000 if ctx.thorough else 800, seed=1)
    seen, items = set(), []
    for it in pools:
        if it["sql"] not in seen:
            seen.add(it["sql"])
            items.append(it)
    items.sort(key=lambda it: it["sql"])
    if not ctx.thorough:
        # the unchanged tree is known to break this property (listed findings), so the space is fixed: the seed picks a slice
        import zlib

        items = [it for it in items if it["sql"] in core_sql or zlib.crc32(it["sql"].encode()) % 6 == ctx.seed % 6]
    dbs = relgen.databases(ctx, 6 if ctx.thorough else 2)
    chunks = [items[i::32] for i in range(32)]
    cases, skips = [], []
    with ProcessPoolExecutor(max_workers=16) as ex:
        for o in ex.map(_chunk, [(c, dbs) for c in chunks if c]):
            for c in o:
                (skips if "skip" in c else cases).append(c)
    if len(skips) > len(cases) // 5:
        raise MachineryError(f"{len(skips)} queries rejected by DuckDB, e.g. {skips[0]}")
    verdicts = judge(ctx, "RelTrace", cases, "exec", per_shard=1500)
    ctx.count(len(cases), traces=len(cases))
    stats = {"conclusive": 0, "engines_disagree": 0, "executor_error": 0, "calibrated_yes": 0, "calibrated_no": 0}
    drift_shown = 0
    for c in cases:
        clause, rowmask, namemask, calib = verdicts[c["id"]]
        m = c["meta"]
        runs = c["runs"]
        if runs[0]["rows"]:
            ctx.nontrivial((m["sql"], m["db"]))
        sqlite_bad = (rowmask >> 2) & 1 or not runs[1]["ok"]
        if calib == "yes":
            stats["calibrated_yes"] += 1
        elif calib == "no" and not sqlite_bad:
            stats["calibrated_no"] += 1
            if drift_shown < 5:
                drift_shown += 1
                ctx.drift(f"RelSem.Sem disagrees with DuckDB and SQLite (which agree) on {m['sql']!r} over db {m['db']}", {"sql": m["sql"], "db": m["dbrows"]})
        if m["crash"]:
            ctx.violation(f"Crash:{m['crash']}:{_key(m, '')}", f"executor raised {m['errs'][-1]} (not an ExecuteError) for {m['sql']!r} on db {m['db']}", {k: m[k] for k in ("sql", "db", "dbrows", "feats", "sk")})
            continue
        if sqlite_bad:
            stats["engines_disagree"] += 1
            continue
        if len(runs) < 3 or not runs[2]["ok"]:
            stats["executor_error"] += 1
            continue
        stats["conclusive"] += 1
        if (rowmask >> 3) & 1:
            ctx.violation(_key(m, "SameRows"), f"executor returns {runs[2]['rows'][:6]} but DuckDB and SQLite return {runs[0]['rows'][:6]} for {m['sql']!r} on db {m['db']} {m['dbrows']}", {k: m.get(k) for k in ("sql", "db", "dbrows", "feats", "sk", "minimal")})
        elif (namemask >> 3) & 1:
            ctx.violation(_key(m, "SameNames"), f"executor returns columns {runs[2]['names']} but the engines return {runs[0]['names']} for {m['sql']!r}", {k: m[k] for k in ("sql", "db", "dbrows", "feats", "sk")})
    ctx.notes.update({"queries": len(items), "databases": len(dbs), "cases": len(cases), **stats, "duckdb_rejected": len(skips)})
    if stats["calibrated_no"] > max(3, stats["calibrated_yes"] // 50):
        raise MachineryError(f"RelSem disagrees with both engines on {stats['calibrated_no']} cases: the specification is wrong")
    for c in cases[:: max(1, len(cases) // 2)][:2]:
        ctx.sample({"sql": c["meta"]["sql"], "db": c["meta"]["dbrows"], "duckdb_rows": c["runs"][0]["rows"][:5], "executor_rows": c["runs"][-1]["rows"][:5]})
    ctx.cov["exhaustive"] = False


def replay(ctx, payload):
    p = payload["payload"]
    b = relq.build(p["sk"])
    if not b:
        return None
    q, feats = b
    cases = [c for c in _chunk(([{"sk": p["sk"], "q": q, "feats": sorted(feats), "sql": relq.query_sql(q)}], [p["dbrows"]])) if "skip" not in c]
    verdicts = judge(ctx, "RelTrace", cases, "replay")
    for c in cases:
        clause, rowmask, namemask, calib = verdicts[c["id"]]
        if c["meta"]["crash"] or ((rowmask >> 3) & 1 and not (rowmask >> 2) & 1):
            return f"executor differs from the engines for {p['sql']!r}"
    return None
