"""C09 — non-mutating APIs leave their arguments untouched; copies are independent (spec/Frame.tla)."""
from __future__ import annotations

import json
import os
from concurrent.futures import ProcessPoolExecutor

from lib import tlc
from lib.tlc import MachineryError
from lib.tracejudge import judge

APIS = ["sql", "sql_pretty", "transform", "builder", "optimize", "qualify_copy", "annotate_copy", "normalize_copy",
        "expand", "replace_tables", "replace_placeholders", "diff", "lineage", "copy_edit"]
FIELDS = ["oid", "cls", "val", "args", "parent", "akey", "idx", "type", "comments", "meta", "cid", "mid"]


def write_cfg(path, *, mode, variant="copy", maxcalls=3, n=6, pop="bvel", maxops=3):
    lines = ["CONSTANTS", f"  N = {n}", f'  Pop = "{pop}"', f"  MaxOps = {maxops}", '  Variant = "code"', "  ExtraKeys = {}",
             f'  FrameVariant = "{variant}"', "  Apis = {" + ", ".join(f'"{a}"' for a in APIS) + "}", f"  MaxCalls = {maxcalls}"]
    if mode == "frame":
        lines += ["INIT FInit", "NEXT FNext", "INVARIANT LinkOK", "INVARIANT HashOK", "INVARIANT Disjoint", "PROPERTY FrameOK"]
    else:
        lines += ["INIT GInit", "NEXT GNext", "INVARIANT EmitCalls"]
    with open(path, "w") as f:
        f.write("\n".join(lines) + "\n")


def snapshot(tree):
    """Projection of the argument tree with object identities and back pointers (ids are Python id()s mapped densely)."""
    from props.c12 import _exact
    from sqlglot import exp

    Expr = exp.Expr if hasattr(exp, "Expr") else exp.Expression
    ids, order, stack = {}, [], [tree]
    while stack:
        n = stack.pop()
        if id(n) in ids:
            continue
        ids[id(n)] = len(order) + 1
        order.append(n)
        kids = []
        for v in n.args.values():
            if isinstance(v, Expr):
                kids.append(v)
            elif type(v) is list:
                kids.extend(x for x in v if isinstance(x, Expr))
        stack.extend(reversed(kids))
    nodes = []
    for n in order:
        slots, scal = {}, []
        for k in n.args:  # dict order is part of the snapshot: "structurally identical"
            v = n.args[k]
            if isinstance(v, Expr):
                slots[k] = {"t": "node", "ids": [ids[id(v)]]}
            elif type(v) is list:
                slots[k] = {"t": "list", "ids": [ids[id(x)] if isinstance(x, Expr) else 0 for x in v]}
                sc = [(i, type(x).__name__, x if not hasattr(x, "value") else x.value) for i, x in enumerate(v) if not isinstance(x, Expr)]
                if sc:
                    scal.append((k, sc))
            else:
                scal.append((k, type(v).__name__, v if not hasattr(v, "value") or isinstance(v, (str, int, float, bool)) else v.value))
        p = n.parent
        t = n._type
        nodes.append(
            {
                "oid": id(n),
                "cls": type(n).__name__,
                "val": ascii(scal),
                "args": slots,
                "parent": 0 if p is None else ids.get(id(p), -1),
                "akey": n.arg_key or "",
                "idx": -1 if n.index is None else n.index,
                "type": "" if t is None else ascii(_exact(t)),
                "comments": ascii(n.comments),
                "meta": ascii(sorted((n._meta or {}).items(), key=repr)) if n._meta is not None else "~",
                "cid": id(n.comments) if n.comments is not None else 0,
                "mid": id(n._meta) if n._meta is not None else 0,
            }
        )
    # object ids are made dense so that TLC's 32-bit integers can hold them
    dense = {}
    for nd in nodes:
        for f in ("oid", "cid", "mid"):
            if nd[f]:
                nd[f] = dense.setdefault(nd[f], len(dense) + 1)
    return nodes, dense


def resnap(tree, dense):
    nodes, _ = snapshot(tree)
    # re-densify with the *same* table so identities are comparable across the two snapshots
    return nodes


def _snap_pair(tree, fn):
    """pre snapshot, call, post snapshot (with one shared identity table)."""
    from props.c12 import _exact
    from sqlglot import exp

    dense = {}

    def snap():
        nodes, _ = _raw_snapshot(tree)
        for nd in nodes:
            for f in ("oid", "cid", "mid"):
                if nd[f]:
                    nd[f] = dense.setdefault(nd[f], len(dense) + 1)
        return nodes

    pre = snap()
    result, err = None, None
    try:
        result = fn()
    except Exception as e:  # the property is about the argument, whatever the call did
        err = f"{type(e).__name__}"
    post = snap()
    return pre, post, result, err


def _raw_snapshot(tree):
    from props.c12 import _exact
    from sqlglot import exp

    Expr = exp.Expr if hasattr(exp, "Expr") else exp.Expression
    ids, order, stack = {}, [], [tree]
    while stack:
        n = stack.pop()
        if id(n) in ids:
            continue
        ids[id(n)] = len(order) + 1
        order.append(n)
        kids = []
        for v in n.args.values():
            if isinstance(v, Expr):
                kids.append(v)
            elif type(v) is list:
                kids.extend(x for x in v if isinstance(x, Expr))
        stack.extend(reversed(kids))
    nodes = []
    for n in order:
        slots, scal = {}, []
        for k in n.args:
            v = n.args[k]
            if isinstance(v, Expr):
                slots[k] = {"t": "node", "ids": [ids[id(v)]]}
            elif type(v) is list:
                slots[k] = {"t": "list", "ids": [ids[id(x)] if isinstance(x, Expr) else 0 for x in v]}
                sc = [(i, type(x).__name__, x if not hasattr(x, "value") else x.value) for i, x in enumerate(v) if not isinstance(x, Expr)]
                if sc:
                    scal.append((k, sc))
            else:
                scal.append((k, type(v).__name__, v if isinstance(v, (str, int, float, bool)) or not hasattr(v, "value") else v.value))
        p = n.parent
        t = n._type
        nodes.append(
            {"oid": id(n), "cls": type(n).__name__, "val": ascii(scal), "args": slots,
             "parent": 0 if p is None else ids.get(id(p), -1), "akey": n.arg_key or "", "idx": -1 if n.index is None else n.index,
             "type": "" if t is None else ascii(_exact(t)), "comments": ascii(n.comments),
             "meta": ascii(sorted((n._meta or {}).items(), key=repr)) if n._meta is not None else "~",
             "cid": id(n.comments) if n.comments is not None else 0, "mid": id(n._meta) if n._meta is not None else 0}
        )
    return nodes, {id(n) for n in order} | {id(n.comments) for n in order if n.comments is not None} | {id(n._meta) for n in order if n._meta is not None}


def _result_ids(result):
    from sqlglot import exp

    Expr = exp.Expr if hasattr(exp, "Expr") else exp.Expression
    out = set()
    seen = set()

    def walk(x, depth=0):
        if depth > 6 or id(x) in seen:
            return
        seen.add(id(x))
        if isinstance(x, Expr):
            for n in x.walk():
                out.add(id(n))
                if n.comments is not None:
                    out.add(id(n.comments))
                if n._meta is not None:
                    out.add(id(n._meta))
        elif isinstance(x, (list, tuple)):
            for y in x:
                walk(y, depth + 1)
        elif hasattr(x, "__dict__") and not isinstance(x, type):
            for y in list(vars(x).values())[:20]:
                if isinstance(y, (Expr, list, tuple)) or hasattr(y, "__dict__"):
                    walk(y, depth + 1)

    walk(result)
    return out


def _api(name, tree, w, rng):
    """Returns a thunk running one documented-to-copy API on `tree`."""
    import sqlglot
    from sqlglot import exp
    from lib.producers import SCHEMA

    d = w["dialect"] or None
    if name == "sql":
        td = w["targets"][rng.randrange(len(w["targets"]))]
        return lambda: tree.sql(dialect=td or None), f"sql:{td or 'base'}"
    if name == "sql_pretty":
        td = w["targets"][rng.randrange(len(w["targets"]))]
        return lambda: tree.sql(dialect=td or None, pretty=True, identify=True), f"sql_pretty:{td or 'base'}"
    if name == "transform":
        f = rng.randrange(3)
        fn = [lambda n: n, lambda n: exp.column("zz") if isinstance(n, exp.Column) else n,
              lambda n: exp.func("F", n) if isinstance(n, exp.Literal) else n][f]
        return lambda: tree.transform(fn), f"transform:{f}"
    if name == "builder":
        sel = isinstance(tree, exp.Select)
        if sel:
            opts = [("select", lambda: tree.select("zz")), ("where", lambda: tree.where("zz = 1")), ("join", lambda: tree.join("jt", on="1 = 1")),
                    ("group_by", lambda: tree.group_by("zz")), ("order_by", lambda: tree.order_by("zz")), ("limit", lambda: tree.limit(1)),
                    ("with_", lambda: tree.with_("c9", as_="SELECT 1")), ("from_", lambda: tree.from_("ft")), ("having", lambda: tree.having("COUNT(*) > 1")),
                    ("distinct", lambda: tree.distinct()), ("subquery", lambda: tree.subquery("sq")), ("union", lambda: tree.union("SELECT 1")),
                    ("window", lambda: tree.window("w AS (PARTITION BY zz)")), ("qualify", lambda: tree.qualify("zz = 1")), ("sort_by", lambda: tree.sort_by("zz")),
                    ("cluster_by", lambda: tree.cluster_by("zz")), ("lateral", lambda: tree.lateral("EXPLODE(x) AS e")), ("offset", lambda: tree.offset(1)),
                    ("ctas", lambda: tree.ctas("newt")), ("hint", lambda: tree.hint("H(a)"))]
        elif isinstance(tree, exp.Query):
            opts = [("limit", lambda: tree.limit(1)), ("order_by", lambda: tree.order_by("zz")), ("subquery", lambda: tree.subquery("sq")),
                    ("union", lambda: tree.union("SELECT 1")), ("with_", lambda: tree.with_("c9", as_="SELECT 1"))]
        elif isinstance(tree, exp.Condition):
            opts = [("and_", lambda: tree.and_("zz = 1")), ("or_", lambda: tree.or_("zz")), ("not_", lambda: tree.not_()), ("as_", lambda: tree.as_("al")),
                    ("eq", lambda: tree.eq(1)), ("isin", lambda: tree.isin(1, 2)), ("between", lambda: tree.between(1, 2)), ("paren", lambda: exp.paren(tree)),
                    ("alias_", lambda: exp.alias_(tree, "al")), ("cast", lambda: exp.cast(tree, "int")), ("and_fn", lambda: exp.and_(tree, "zz")), ("neg", lambda: -tree)]
        else:
            opts = [("copy", lambda: tree.copy())]
        return [(fn, f"builder:{nm}") for nm, fn in opts], None
    if name == "optimize":
        from sqlglot.optimizer import optimize

        return lambda: optimize(tree, schema=SCHEMA, dialect=d), "optimize"
    if name == "qualify_copy":
        from sqlglot.optimizer.qualify import qualify

        return lambda: qualify(tree.copy(), schema=SCHEMA, dialect=d, validate_qualify_columns=False), "qualify(copy)"
    if name == "annotate_copy":
        from sqlglot.optimizer.annotate_types import annotate_types

        return lambda: annotate_types(tree.copy(), schema=SCHEMA, dialect=d), "annotate_types(copy)"
    if name == "normalize_copy":
        from sqlglot.optimizer.normalize_identifiers import normalize_identifiers

        return lambda: normalize_identifiers(tree.copy(), dialect=d), "normalize_identifiers(copy)"
    if name == "expand":
        return lambda: exp.expand(tree, {"x": sqlglot.parse_one("SELECT 1 AS a, 2 AS b"), "t": sqlglot.parse_one("SELECT a FROM u")}, dialect=d), "expand"
    if name == "replace_tables":
        return lambda: exp.replace_tables(tree, {"x": "db.x2", "t": "t2", "y": "c.d.y2"}, dialect=d), "replace_tables"
    if name == "replace_placeholders":
        return lambda: exp.replace_placeholders(tree, 1, 2, a=3, b=exp.column("q")), "replace_placeholders"
    if name == "diff":
        from sqlglot import diff

        from lib.producers import _random_edits

        other = sqlglot.parse_one(w["other"], dialect=w["other_dialect"] or None) if w.get("other") else tree.copy()
        near = _random_edits(tree.copy(), rng, 1 + rng.randrange(3))  # partially similar: inner nodes get rendered and matched
        dd = [None, d][rng.randrange(2)]
        return [
            (lambda: diff(tree, near, dialect=dd), "diff(tree, edited copy)"),
            (lambda: diff(near, tree, delta_only=True, dialect=dd), "diff(edited copy, tree)"),
            (lambda: diff(tree, other), "diff(tree, other)"),
            (lambda: diff(tree, tree.copy()), "diff(tree, copy)"),
        ], None
    if name == "lineage":
        from sqlglot.lineage import lineage

        col = None
        if isinstance(tree, exp.Query) and tree.named_selects:
            col = tree.named_selects[0]
        return (lambda: lineage(col, tree, schema=SCHEMA, dialect=d)) if col else (lambda: None), "lineage"
    if name == "copy_edit":
        def fn():
            c = tree.copy()
            from lib.producers import _random_edits

            _random_edits(c, rng, 4)
            for nd in list(c.walk())[:6]:
                nd.add_comments(["edited"])
                nd.meta["edited"] = True
            return None  # the copy was edited on purpose; sharing is judged by the frame on the original

        return fn, "copy(); edit the copy"
    raise MachineryError(f"unknown api {name}")


def _chunk(arg):
    import sys

    sys.path.insert(0, os.environ.get("VERIF_REPO", "/repo"))
    import logging
    import random

    logging.getLogger("sqlglot").setLevel(logging.CRITICAL)
    import sqlglot
    from lib.guard import HardTimeout, limits, time_limit

    limits()
    out = []
    for w in arg:
        rng = random.Random(w["r"])
        try:
            tree = sqlglot.parse_one(w["sql"], dialect=w["dialect"] or None)
        except Exception:
            continue
        if w.get("decorate"):
            for k, nd in enumerate(tree.walk()):
                if k % 4 == 0:
                    nd.add_comments([f"c{k}"])
                if k % 5 == 0:
                    nd.meta["m"] = k
        if w.get("hash_first"):
            hash(tree)
        try:
            base_sql = tree.sql(dialect=w["dialect"] or None)
        except Exception:
            continue
        for ci, api in enumerate(w["calls"]):
            try:
                fn, label = _api(api, tree, w, rng)
            except Exception as e:
                out.append({"crash": f"{type(e).__name__}: {e}", "meta": {"api": api, "sql": w["sql"]}})
                continue
            thunks = fn if isinstance(fn, list) else [(fn, label)]
            for fn, label in thunks:
              try:
                with time_limit(30):
                    pre, post, result, err = _snap_pair(tree, fn)
                    _, arg_ids = _raw_snapshot(tree)
                    # diff returns edits that reference the input nodes by design, lineage nodes reference scope expressions
                    returns_copy = api not in ("diff", "lineage", "copy_edit")
                    shares = bool(arg_ids & _result_ids(result)) if (result is not None and returns_copy) else False
                    try:
                        text_same = tree.sql(dialect=w["dialect"] or None) == base_sql
                    except Exception:
                        text_same = False
              except HardTimeout:
                continue
              except Exception as e:
                out.append({"crash": f"{type(e).__name__}: {e}", "meta": {"api": api, "sql": w["sql"]}})
                continue
              out.append({"fields": FIELDS, "a": pre, "b": post, "eq": True, "sqlsame": text_same, "jsonsafe": True, "noshare": not shares,
                        "meta": {"sql": w["sql"], "dialect": w["dialect"], "api": label, "history": w["calls"][: ci + 1], "raised": err,
                                 "work": {k: w[k] for k in w if k != "r"} | {"r": w["r"]}}})
    return out


def run(ctx):
    ctx.assumptions += [
        "the argument tree is observed through a full snapshot (object identities, args incl. dict order, back pointers, types, comments, meta, and the identities of the comment lists / meta dicts) taken before and after each call",
        "cached hashes are not part of the snapshot (they may be filled by a call); C08 checks that they are never wrong",
    ]
    ctx.cov["rule"] = (
        "TLC enumerates all API histories of length <= 3 over 14 copying APIs (Frame.tla generator half); each history is run on corpus/probe trees "
        "(rotating dialects and target dialects); one case per call: argument snapshot before vs after, judged by TLC; distinct by (input, dialect, history prefix); "
        "non-trivial = the call is not the first of its history (the tree has already been through another API)"
    )
    # 1. the frame property on the model, and its in-place negative control
    cfg = os.path.join(ctx.work, "frame.cfg")
    write_cfg(cfg, mode="frame", maxops=3)
    res = tlc.run("Frame", cfg, ctx.work, workers=16, timeout_s=1500 if ctx.thorough else 400, allow_violation=False)
    ctx.model(res, "Frame", cfg, "FrameOK / Disjoint / LinkOK / HashOK over call frames on the node store")
    cfg = os.path.join(ctx.work, "frame_neg.cfg")
    write_cfg(cfg, mode="frame", variant="inplace")
    res = tlc.run("Frame", cfg, ctx.work, workers=8, timeout_s=300)
    if "PROPERTY" not in res.violated:
        raise MachineryError("in-place variant does not violate FrameOK (vacuous)")
    ctx.notes["negative_controls"] = {"inplace": res.violated}
    # 2. API histories generated by TLC
    cfg = os.path.join(ctx.work, "gen.cfg")
    write_cfg(cfg, mode="gen", maxcalls=3)
    res = tlc.run("Frame", cfg, ctx.work, workers=8, timeout_s=600, allow_violation=False)
    ctx.model(res, "Frame", cfg, "generator: all API histories of length <= 3")
    hists = sorted(tuple(p["calls"]) for p in res.printed if p["calls"])
    if len(hists) != res.distinct - 1:
        raise MachineryError(f"generator printed {len(hists)} histories for {res.distinct} states")
    full = [h for h in hists if len(h) == 3]
    from lib import producers

    rng = ctx.rng
    ident = producers.corpus_identity()
    opt = [o for o in producers.corpus_optimizer() if o["file"] in ("optimizer", "qualify_columns", "merge_subqueries", "pushdown_projections", "unnest_subqueries", "eliminate_subqueries", "pushdown_predicates")]
    probes = producers.corpus_probes()
    dialects = producers.all_dialects()
    if not ctx.thorough:
        full = full[ctx.seed % 4 :: 4]
    work = []
    for i, h in enumerate(full):
        r = i % 10
        if r < 5:
            o = opt[(i * 31 + ctx.seed) % len(opt)]
            sql, d = o["sql"], o["dialect"] or ""
        elif r < 8:
            sql, d = ident[(i * 17 + ctx.seed) % len(ident)], ""
        else:
            pr = probes[(i * 7 + ctx.seed) % len(probes)]
            sql, d = pr["sql"], pr["dialect"]
        o2 = opt[(i * 13 + 5) % len(opt)]
        work.append({"sql": sql, "dialect": d, "calls": list(h), "targets": [dialects[(i + k * 11) % len(dialects)] for k in range(3)],
                     "other": o2["sql"], "other_dialect": o2["dialect"] or "", "decorate": i % 2 == 0, "hash_first": i % 3 == 0, "r": rng.random()})
    chunks = [work[i::64] for i in range(64)]
    cases = []
    with ProcessPoolExecutor(max_workers=16) as ex:
        for o in ex.map(_chunk, [c for c in chunks if c]):
            cases += o
    crashes = [c for c in cases if "crash" in c]
    cases = [c for c in cases if "crash" not in c]
    if len(crashes) > max(10, len(cases) // 20):
        raise MachineryError(f"{len(crashes)} observer crashes, e.g. {crashes[0]}")
    verdicts = judge(ctx, "SerdeTrace", cases, "frames", per_shard=1200)
    ctx.count(len(cases), traces=len(cases))
    stats, apis = {}, {}
    for c in cases:
        clause, field, node = verdicts[c["id"]]
        m = c["meta"]
        stats[clause] = stats.get(clause, 0) + 1
        apis[m["api"].split(":")[0]] = apis.get(m["api"].split(":")[0], 0) + 1
        if len(m["history"]) > 1:
            ctx.nontrivial((m["sql"], m["dialect"], tuple(m["history"]), m["api"]))
        if clause != "OK":
            cls = c["a"][node - 1]["cls"] if node and node <= len(c["a"]) else ""
            name = {"SameTree": "Frame", "SameSql": "TextSame", "NoShare": "CopyIndependent"}.get(clause, clause)
            what = f"{name} fails: {m['api']} on {m['sql'][:120]!r} ({m['dialect'] or 'base'}) after {m['history'][:-1]}"
            if clause == "SameTree":
                what += f": field {field} of argument node {node} ({cls}) changed"
                if node and node <= len(c["b"]) and field in c["a"][node - 1]:
                    what += f": {str(c['a'][node-1].get(field))[:120]!r} -> {str(c['b'][node-1].get(field))[:120]!r}"
            ctx.violation(f"{m['api'].split(':')[0]}:{name}" + (f":{field}:{cls}" if clause == "SameTree" else ""), what, {k: m[k] for k in ("sql", "dialect", "api", "history", "work")})
    ctx.notes["frames"] = {"cases": len(cases), "verdicts": stats, "per_api": apis, "histories": len(work), "observer_crashes": len(crashes)}
    for c in cases[:: max(1, len(cases) // 2)][:2]:
        ctx.sample({"kind": "call frame judged by TLC", "api": c["meta"]["api"], "history": c["meta"]["history"], "sql": c["meta"]["sql"], "argument_nodes": len(c["a"])})
    ctx.cov["exhaustive"] = False


def replay(ctx, payload):
    p = payload["payload"]
    cases = [c for c in _chunk([p["work"]]) if "crash" not in c]
    verdicts = judge(ctx, "SerdeTrace", cases, "replay")
    for c in cases:
        clause = verdicts[c["id"]][0]
        if clause != "OK" and c["meta"]["api"].split(":")[0] == p["api"].split(":")[0]:
            return f"{clause} fails for {c['meta']['api']} on {p['sql'][:100]!r}"
    return None
