#!/usr/bin/env python3
"""Validates MANIFEST.json and every evidence file against the harness schemas (python3-vt has jsonschema)."""
import json, sys, glob, jsonschema
m = json.load(open('/verif/MANIFEST.json'))
jsonschema.validate(m, json.load(open('/root/.vp/MANIFEST.schema.json')))
es = json.load(open('/root/.vp/EVIDENCE.schema.json'))
for c in m['checks']:
    p = c['evidence_file']
    try:
        jsonschema.validate(json.load(open(p)), es); print('ok', p)
    except Exception as e:
        print('BAD', p, str(e)[:300])
print('manifest ok; checks:', len(m['checks']))
