#!/bin/sh
# usage: tools/confirm_seed.sh <seed dir with patch.diff demo.py> <name>
# Confirms in a scratch worktree: patch applies, demo fails with it and passes without, unedited test suite passes with it.
D="$1"; NAME="$2"; WT=/tmp/wt/confirm_$NAME
git -C /repo worktree add --detach "$WT" HEAD -q || exit 3
cd "$WT"
/venv/bin/python "$D/demo.py" >/tmp/confirm_$NAME.clean 2>&1; RC_CLEAN=$?
git apply "$D/patch.diff" || { echo "APPLY-FAIL"; git -C /repo worktree remove --force "$WT"; exit 3; }
/venv/bin/python "$D/demo.py" >/tmp/confirm_$NAME.patched 2>&1; RC_PATCHED=$?
TESTS=$(/venv/bin/python -m pytest -q -p no:cacheprovider -n ${NPROC:-6} tests 2>&1 | tail -1)
cd /; git -C /repo worktree remove --force "$WT"
echo "$NAME demo_clean_rc=$RC_CLEAN demo_patched_rc=$RC_PATCHED tests: $TESTS"
