#!/usr/bin/env python3
"""usage: keep_seed.py <seed name e.g. C08_1> <detected: yes|no|partial> <free text: which check/key catches it>
Copies /tmp/seedout/<name>/{patch.diff,demo.py,notes.txt} to /verif/seeded/<name>/ and writes meta.json."""
import json, os, shutil, sys, re
name, detected, how = sys.argv[1], sys.argv[2], sys.argv[3]
src = f"/tmp/seedout/{name}"
dst = f"/verif/seeded/{name}"
os.makedirs(dst, exist_ok=True)
for f in ("patch.diff", "demo.py", "notes.txt"):
    shutil.copy(os.path.join(src, f), os.path.join(dst, f))
confirm = ""
for log in sorted(os.listdir("/tmp/seedout")):
    if log.startswith("confirm_batch"):
        for line in open(os.path.join("/tmp/seedout", log)):
            if line.startswith(name + " "):
                confirm = line.strip()
notes = open(os.path.join(src, "notes.txt")).read()
meta = {
    "property": name.split("_")[0],
    "origin": "fresh sub-agent given only the property text and its own scratch worktree",
    "needs_to_manifest": notes[:1500],
    "confirmed_in_scratch_worktree": confirm or "see notes.txt",
    "what_i_ran": [
        f"tools/confirm_seed.sh /tmp/seedout/{name} {name}   # demo passes clean, fails patched, 1236 repo tests pass with the patch",
        f"tools/seedtest.sh seeded/{name}/patch.diff {name.split('_')[0]}   # git -C /repo apply; ./check; git -C /repo checkout -- .",
    ],
    "detected_by_check": detected,
    "how": how,
}
json.dump(meta, open(os.path.join(dst, "meta.json"), "w"), indent=1)
print("kept", dst)
