#!/bin/sh
# usage: tools/seedtest.sh <patch.diff> <property id> [tier]
# Applies the seeded change in a scratch worktree of /repo (outside /repo and /verif), runs the check against that tree
# (VERIF_REPO), removes the worktree. /repo itself is never touched, so other runs are not disturbed.
P="$1"; ID="$2"; TIER="${3:-quick}"
WT=/tmp/wt/seedtest_$$
git -C /repo worktree add --detach "$WT" HEAD -q || exit 3
git -C "$WT" apply "$P" || { echo "patch does not apply"; git -C /repo worktree remove --force "$WT"; exit 3; }
cd /verif && VERIF_REPO="$WT" ./check "$ID" --tier "$TIER" > /tmp/seedtest_$$.log 2>&1; RC=$?
git -C /repo worktree remove --force "$WT"
grep -E "^VIOLATION|^  key=|MACHINERY|seed=" /tmp/seedtest_$$.log | head -${LINES_MAX:-12}
echo "rc=$RC"; rm -f /tmp/seedtest_$$.log
