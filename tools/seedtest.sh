#!/bin/sh
# usage: tools/seedtest.sh <patch.diff> <property id> [tier]   -- applies the patch to /repo, runs the check, reverts
P="$1"; ID="$2"; TIER="${3:-quick}"
cd /repo && git diff --quiet || { echo "/repo dirty"; exit 3; }
git -C /repo apply "$P" || { echo "patch does not apply"; exit 3; }
cd /verif && ./check "$ID" --tier "$TIER" > /tmp/seedtest_$$.log 2>&1; RC=$?
git -C /repo checkout -- .
grep -E "^VIOLATION|^  key=|KNOWN-FINDING|MACHINERY|seed=" /tmp/seedtest_$$.log | head -${LINES_MAX:-12}
echo "rc=$RC"; rm -f /tmp/seedtest_$$.log
